#!/usr/bin/env python3
# prints the results table of DESIGN.md 9.3 from evidence/*.json
import json, glob, os
root = os.path.join(os.path.dirname(os.path.abspath(__file__)), "..", "evidence")
print("| id | harnesses | paths | solver queries | wall |")
print("|----|-----------|------:|------:|---:|")
for f in sorted(glob.glob(os.path.join(root, "C*.json"))):
    e = json.load(open(f))
    hs = e["coverage"]["harnesses"]
    names = ", ".join(h["name"] for h in hs)
    paths = sum(h.get("paths", 0) for h in hs)
    print(f"| {e['property_id']} | {names} | {paths:,} | {e['coverage'].get('queries', 0):,} | {int(e.get('wall_s', 0))}s |")
