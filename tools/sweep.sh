#!/bin/sh
# runs every claimed check of one tier, prints a one-line summary per property
tier="${1:-quick}"
cd "$(dirname "$0")/.." || exit 2
export VERIF_DIR="$PWD"
for p in $(python3 -c "import json;print(' '.join(c['property_id'] for c in json.load(open('MANIFEST.json'))['checks']))"); do
  s=$(date +%s)
  out=$(./check $p --tier $tier 2>/tmp/sweep.$p.err)
  rc=$?
  e=$(date +%s)
  echo "$p tier=$tier exit=$rc wall=$((e-s))s $(echo "$out" | grep -c KNOWN-FINDING) known $(echo "$out" | grep -E 'VIOLATION|INCONCLUSIVE' | head -2 | cut -c1-200)"
done
