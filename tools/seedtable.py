#!/usr/bin/env python3
# writes seeded/README.md from seeded/*/meta.json
import json, glob, os
root = os.path.join(os.path.dirname(os.path.abspath(__file__)), "..", "seeded")
rows = []
for m in sorted(glob.glob(os.path.join(root, "*", "meta.json"))):
    rows.append(json.load(open(m)))
out = []
out.append("""# Seeded changes

Realistic property-breaking changes to olareg, written by fresh sub-agents that were given
only the text of one property and a scratch git worktree of /repo (nothing from /verif).
Each change compiles, passes the existing test suite, and needs something specific to
manifest. Each was confirmed in a separate scratch worktree before it was kept
(`tools/seedverify.sh`): the patch applies to /repo HEAD, `go build ./...` and
`go test -vet=off -count=1 ./...` pass with it, the agent's demonstration test passes without
the change and fails with it.

Per directory: `patch.diff` (apply with `git -C /repo apply <file>`, undo with
`git -C /repo checkout -- .`), `demo_test.go.txt` (the demonstration; first line says where
to put it), `agent_meta.txt` (the agent's own notes), `meta.json` (property, what it needs
to manifest, what was run, which checks report it). None of these changes is committed in
/repo. `tools/seedrun.sh <name> <property...>` applies one, runs the quick checks, and
undoes it.

A change that the first run of the checks missed is marked **missed first**; the check was
then strengthened (a wider input universe, another start state, a post-state clause, a
follow-up liveness obligation - never a special case for the change) until it reports the
change with a natively replayed counterexample, and re-run on the unchanged tree.

| seed | property | change (file) | needs | reported by (quick tier) |
|---|---|---|---|---|""")
def esc(s): return s.replace("|", "\\|").replace("\n", " ")
missed = 0
for r in rows:
    cb = "; ".join(f"**{k}**: {v}" for k, v in r.get("caught_by", {}).items())
    first = any(("first run missed" in v) or ("only after" in v) or ("INCONCLUSIVE" in v) for v in r.get("caught_by", {}).values())
    if first:
        missed += 1
        cb = "**missed first.** " + cb
    if r.get("status"):
        cb += " **Status:** " + r["status"]
    if r.get("rebased"):
        cb += " *(" + r["rebased"] + ")*"
    out.append(f"| {r['id']} | {r['property']} | {esc(r['summary'])} ({r['files']}) | {esc(r['needs'])} | {esc(cb)} |")
out.append("")
out.append(f"{len(rows)} changes; {missed} were missed by the first run of the checks and led to a stronger check; all {len(rows)} are reported now (exit 1, VIOLATION line, replay file).")
out.append("")
open(os.path.join(root, "README.md"), "w").write("\n".join(out))
print(len(rows), "seeds,", missed, "missed first")
