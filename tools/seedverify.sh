#!/bin/sh
# usage: tools/seedverify.sh <seed-dir> <name> : copies a seeded change into /verif/seeded/<name>
# and confirms in a fresh scratch worktree: applies, builds, existing tests pass, demo fails
# with the change and passes without it.
src="$1"; name="$2"
export GOFLAGS=-mod=mod GOPROXY=off GOSUMDB=off GOTOOLCHAIN=local
dst=/verif/seeded/$name
mkdir -p $dst
cp $src/SEED_patch.diff $dst/patch.diff
cp $src/SEED_demo_test.go.txt $dst/demo_test.go.txt
cp $src/SEED_meta.txt $dst/agent_meta.txt
wt=/tmp/seedchk_$name
git -C /repo worktree add -q $wt HEAD || exit 2
cd $wt
demo=$(cd $src && git status --porcelain | grep '^??' | grep '_test.go' | grep -v SEED_ | awk '{print $2}' | head -1)
echo "demo file: $demo"
cp $src/$demo $wt/$demo
pkg=./$(dirname $demo)
testname=$(grep -o 'func Test[A-Za-z0-9_]*' $wt/$demo | head -1 | sed 's/func //')
echo "== without change: demo"
go test -vet=off -count=1 -run "$testname" $pkg 2>&1 | tail -2
git apply $dst/patch.diff || { echo APPLY-FAILED; }
echo "== with change: build"
go build ./... && echo build-ok
echo "== with change: demo"
go test -vet=off -count=1 -run "$testname" $pkg 2>&1 | tail -3
echo "== with change: existing tests (demo skipped)"
rm -f $wt/$demo
go test -vet=off -count=1 ./... 2>&1 | grep -v "no test files" | tail -8
cd /; git -C /repo worktree remove --force $wt
echo "demo=$demo test=$testname"
