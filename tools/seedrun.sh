#!/bin/sh
# usage: tools/seedrun.sh <name> <prop> [prop...] : applies /verif/seeded/<name>/patch.diff to /repo,
# runs the quick checks of the given properties, undoes the change.
name="$1"; shift
cd /verif
git -C /repo diff --quiet || { echo "/repo not clean"; exit 2; }
git -C /repo apply /verif/seeded/$name/patch.diff || exit 2
for p in "$@"; do
  out=$(VERIF_DIR=/verif ./bin/gosym check -prop $p -tier quick -noevidence 2>/tmp/seedrun.err)
  rc=$?
  echo "seed=$name check=$p exit=$rc $(echo "$out" | grep -E 'VIOLATION|INCONCLUSIVE' | head -3 | cut -c1-220)"
done
git -C /repo checkout -- .
