#!/usr/bin/env python3
"""Regenerates /verif/MANIFEST.json from tools/claims.json (one entry per claimed property)."""
import json, os
here = os.path.dirname(os.path.abspath(__file__))
root = os.path.dirname(here)
props = [json.loads(l)["id"] for l in open(os.path.join(root, "properties.jsonl"))]
claims = json.load(open(os.path.join(here, "claims.json")))
na = json.load(open(os.path.join(here, "not_applicable.json")))
checks = []
for p in props:
    if p not in claims:
        continue
    c = claims[p]
    checks.append({
        "property_id": p,
        "quick_cmd": f"./check {p} --tier quick",
        "thorough_cmd": f"./check {p} --tier thorough",
        "evidence_file": f"/verif/evidence/{p}.json",
        "replay_cmd_template": "./check --replay {path}",
        "engine": "gosym",
        "level_claimed": {"category": "other", "text": c["text"], "design_ref": c.get("design_ref", "DESIGN.md §4." + p)},
        "level_note": c["note"],
        "technique": c.get("technique", "bounded symbolic execution of the real Go SSA (own engine gosym) with z3 deciding branches and assertions; counterexamples replayed natively"),
    })
not_app = [{"property_id": p, "reason": na.get(p, "check not built yet")} for p in props if p not in claims]
m = {
    "version": 1,
    "setup_cmd": "cd /verif/engine && GOFLAGS=-mod=mod GOPROXY=off GOSUMDB=off GOTOOLCHAIN=local go build -o /verif/bin/gosym ./cmd/gosym",
    "hooks": {
        "guard": "verif",
        "enable": "no hooks in /repo: harnesses and environment models are injected with go/packages Overlay (engine) and go test -overlay (replay); no file of /repo carries the tag",
        "baseline_off_cmd": "cd /repo && go test -vet=off -count=1 ./...",
        "source_commits": [],
        "add_only": True,
    },
    "engines": [{
        "name": "gosym", "path": "/verif/engine", "serves_properties": [c["property_id"] for c in checks],
        "kind_free_text": "forking symbolic executor for Go SSA (golang.org/x/tools/go/ssa v0.29.0, built from /repo's working tree on every run) with z3 4.8.12 deciding every symbolic branch, bounds check, assumption and assertion; environment (os, clock, rand, ServeContent) redirected to models by a source rewrite applied through overlays; counterexamples replayed natively with go test -overlay",
    }],
    "checks": checks,
    "notes": "See DESIGN.md. Exit codes of every check: 0 held within bounds (KNOWN-FINDING lines possible), 1 VIOLATION (replayed natively), 2 INCONCLUSIVE (never reported as success).",
    "not_applicable": not_app,
}
json.dump(m, open(os.path.join(root, "MANIFEST.json"), "w"), indent=1)
print("claimed:", [c["property_id"] for c in checks])
