package main

// Mechanical redirection of the environment: selected package selectors in selected
// olareg source files are replaced by the model packages.  The rewritten files are
// used both for symbolic execution (packages.Config.Overlay) and for native replay
// (go test -overlay), so a replay exercises exactly the code that was encoded.

import (
	"bytes"
	"fmt"
	"go/ast"
	"go/format"
	"go/parser"
	"go/token"
	"os"
	"path/filepath"
	"strconv"
	"strings"

	"golang.org/x/tools/go/ast/astutil"
)

const envBase = "github.com/olareg/olareg/internal/verifenv/"

type redirect struct {
	fromPath string          // import path in the file
	toPath   string          // model package
	sels     map[string]bool // nil = every selector
	onlyFile string          // restrict to one file (relative path suffix)
	inCmd    bool            // also applies to files of the command package
}

var redirects = []redirect{
	{fromPath: "os", toPath: envBase + "vos"},
	{fromPath: "time", toPath: envBase + "vclock", sels: map[string]bool{
		"Now": true, "Since": true, "AfterFunc": true, "NewTicker": true, "Timer": true, "Ticker": true,
		"NewTimer": true, "Sleep": true, "After": true, "Until": true, "Tick": true}},
	{fromPath: "crypto/rand", toPath: envBase + "vrand"},
	{fromPath: "net/http", toPath: envBase + "vhttp", sels: map[string]bool{"ServeContent": true, "Server": true, "ErrServerClosed": true}},
	{fromPath: "os/signal", toPath: envBase + "vsig", inCmd: true},
	{fromPath: "os", toPath: envBase + "vsig", sels: map[string]bool{"Interrupt": true}, onlyFile: "cmd/olareg/serve.go"},
	{fromPath: "context", toPath: envBase + "vctx", sels: map[string]bool{"WithCancel": true, "Background": true}, onlyFile: "cmd/olareg/serve.go"},
	{fromPath: "github.com/olareg/olareg", toPath: envBase + "vhook", sels: map[string]bool{"New": true}, onlyFile: "cmd/olareg/serve.go"},
}

// files of /repo (relative) whose environment is redirected
var redirectedFiles = []string{
	"olareg.go", "blob.go", "manifest.go", "referrer.go", "tag.go",
	"internal/store/store.go", "internal/store/dir.go", "internal/store/mem.go",
	"internal/cache/cache.go",
	"cmd/olareg/serve.go",
}

// rewriteFile returns the redirected source of path, and the list of replaced selectors.
func rewriteFile(path string) ([]byte, []string, error) {
	fset := token.NewFileSet()
	f, err := parser.ParseFile(fset, path, nil, parser.ParseComments)
	if err != nil {
		return nil, nil, err
	}
	// local names of the imports
	local := map[string]*redirect{}
	for _, imp := range f.Imports {
		p, _ := strconv.Unquote(imp.Path.Value)
		for k := range redirects {
			r := &redirects[k]
			if r.fromPath != p {
				continue
			}
			if r.onlyFile != "" && !strings.HasSuffix(path, r.onlyFile) {
				continue
			}
			if r.onlyFile == "" && !r.inCmd && strings.Contains(path, "/cmd/") {
				continue // the command package keeps its real environment
			}
			name := filepath.Base(p)
			if imp.Name != nil {
				name = imp.Name.Name
			}
			if name == "_" || name == "." {
				continue
			}
			local[name] = r
		}
	}
	var replaced []string
	used := map[string]bool{}
	ast.Inspect(f, func(n ast.Node) bool {
		sel, ok := n.(*ast.SelectorExpr)
		if !ok {
			return true
		}
		id, ok := sel.X.(*ast.Ident)
		if !ok || id.Obj != nil {
			return true
		}
		r, ok := local[id.Name]
		if !ok {
			return true
		}
		if r.sels != nil && !r.sels[sel.Sel.Name] {
			return true
		}
		replaced = append(replaced, id.Name+"."+sel.Sel.Name)
		id.Name = filepath.Base(r.toPath)
		used[r.toPath] = true
		return true
	})
	for p := range used {
		astutil.AddImport(fset, f, p)
	}
	for _, r := range redirects {
		if !astutil.UsesImport(f, r.fromPath) {
			// keep blank imports
			astutil.DeleteImport(fset, f, r.fromPath)
		}
	}
	var buf bytes.Buffer
	if err := format.Node(&buf, fset, f); err != nil {
		return nil, nil, err
	}
	return buf.Bytes(), replaced, nil
}

// buildOverlay creates the overlay: redirected repo files, env packages, harness files.
// Returned map: virtual path -> content.
func buildOverlay(repo, verif string) (map[string][]byte, map[string][]string, error) {
	ov := map[string][]byte{}
	replacedBy := map[string][]string{}
	for _, rel := range redirectedFiles {
		p := filepath.Join(repo, rel)
		if _, err := os.Stat(p); err != nil {
			return nil, nil, fmt.Errorf("redirected file missing: %s", rel)
		}
		src, rep, err := rewriteFile(p)
		if err != nil {
			return nil, nil, fmt.Errorf("rewrite %s: %w", rel, err)
		}
		ov[p] = src
		replacedBy[rel] = rep
	}
	// any other non-test source file that imports os or uses time.Now must be listed:
	// refuse to run if an olareg store/server file escapes redirection.
	for _, dir := range []string{"", "internal/store", "internal/cache"} {
		ents, _ := os.ReadDir(filepath.Join(repo, dir))
		for _, e := range ents {
			n := e.Name()
			if e.IsDir() || !strings.HasSuffix(n, ".go") || strings.HasSuffix(n, "_test.go") {
				continue
			}
			rel := filepath.Join(dir, n)
			if _, ok := replacedBy[rel]; ok {
				continue
			}
			b, _ := os.ReadFile(filepath.Join(repo, rel))
			s := string(b)
			if strings.Contains(s, "\"os\"") || strings.Contains(s, "time.Now(") || strings.Contains(s, "time.AfterFunc(") {
				return nil, nil, fmt.Errorf("source file %s uses os/time but is not in the redirection table", rel)
			}
		}
	}
	// env packages
	envDir := filepath.Join(verif, "env")
	ents, err := os.ReadDir(envDir)
	if err != nil {
		return nil, nil, err
	}
	for _, e := range ents {
		if !e.IsDir() {
			continue
		}
		files, _ := os.ReadDir(filepath.Join(envDir, e.Name()))
		for _, f := range files {
			if strings.HasSuffix(f.Name(), ".go") {
				b, err := os.ReadFile(filepath.Join(envDir, e.Name(), f.Name()))
				if err != nil {
					return nil, nil, err
				}
				ov[filepath.Join(repo, "internal", "verifenv", e.Name(), f.Name())] = b
			}
		}
	}
	// harness files: /verif/harness/<dir>/zz_*.go -> /repo/<dir>/ ("root" = module root)
	hDir := filepath.Join(verif, "harness")
	err = filepath.Walk(hDir, func(p string, info os.FileInfo, err error) error {
		if err != nil || info.IsDir() || !strings.HasSuffix(p, ".go") {
			return err
		}
		rel, _ := filepath.Rel(hDir, p)
		parts := strings.Split(rel, string(filepath.Separator))
		if parts[0] == "root" {
			parts = parts[1:]
		}
		b, err := os.ReadFile(p)
		if err != nil {
			return err
		}
		ov[filepath.Join(append([]string{repo}, parts...)...)] = b
		return nil
	})
	return ov, replacedBy, err
}
