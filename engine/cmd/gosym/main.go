// gosym: solver-based checking of olareg's real code.
//
//	gosym check -prop C18 -tier quick     run all harnesses of a property, write evidence
//	gosym replay -file replays/C18/x.json re-run one counterexample natively
//	gosym list                             list harnesses
package main

import (
	"encoding/json"
	"flag"
	"fmt"
	"os"
	"os/exec"
	"path/filepath"
	"regexp"
	"runtime"
	"runtime/debug"
	"runtime/pprof"
	"sort"
	"strconv"
	"strings"
	"sync"
	"time"

	"golang.org/x/tools/go/packages"
	"golang.org/x/tools/go/ssa"
	"golang.org/x/tools/go/ssa/ssautil"

	"gosym/interp"
)

// TierConf are the bounds of one harness in one tier.
type TierConf struct {
	Params    map[string]int `json:"params,omitempty"`
	Unwind    int            `json:"unwind,omitempty"`
	MaxConc   int            `json:"maxconc,omitempty"`
	MapOrder  int            `json:"maporder,omitempty"`
	TimeoutS  int            `json:"timeout_s,omitempty"`
	MaxPaths  int64          `json:"maxpaths,omitempty"`
	Solver    string         `json:"solver,omitempty"`
	QueryMs   int            `json:"query_timeout_ms,omitempty"`
	Skip      bool           `json:"skip,omitempty"`
}

// Harness is one entry of harness/table.json.
type Harness struct {
	Property string    `json:"property"`
	Name     string    `json:"name"`
	Pkg      string    `json:"pkg"`
	Func     string    `json:"func"`
	What     string    `json:"what"`
	Covers   []string  `json:"covers"`
	Assume   []string  `json:"assumptions"`
	Lemmas   string    `json:"lemmas,omitempty"`
	Threads  bool      `json:"threads,omitempty"` // schedule-dependent: counterexamples are replayed in the engine
	Differential bool  `json:"differential,omitempty"` // input-free workload compared engine vs native (translator validation)
	Quick    TierConf  `json:"quick"`
	Thorough *TierConf `json:"thorough,omitempty"`
}

// KnownFinding is one entry of known_findings.json.
type KnownFinding struct {
	Property string            `json:"property"`
	Status   string            `json:"status"` // known | fixed
	Harness  string            `json:"harness,omitempty"`
	AssertID string            `json:"assert_id,omitempty"`
	Tags     map[string]string `json:"tags,omitempty"`
	What     string            `json:"what"`
	Commit   string            `json:"commit,omitempty"`
}

var (
	repoDir  = "/repo"
	verifDir = "/verif"
)

func main() {
	// Multi-threaded allocation is pathologically slow in this sandbox (page-fault
	// contention): loading and SSA construction run with few OS threads.
	if os.Getenv("GOMAXPROCS") == "" {
		runtime.GOMAXPROCS(3)
	}
	if len(os.Args) < 2 {
		fmt.Fprintln(os.Stderr, "usage: gosym check|replay|list ...")
		os.Exit(2)
	}
	if v := os.Getenv("VERIF_REPO"); v != "" {
		repoDir = v
	}
	if v := os.Getenv("VERIF_DIR"); v != "" {
		verifDir = v
	}
	switch os.Args[1] {
	case "check":
		if pf := os.Getenv("GOSYM_PROF"); pf != "" {
			f, _ := os.Create(pf)
			pprof.StartCPUProfile(f)
			code := cmdCheck(os.Args[2:])
			pprof.StopCPUProfile()
			f.Close()
			os.Exit(code)
		}
		os.Exit(cmdCheck(os.Args[2:]))
	case "replay":
		os.Exit(cmdReplay(os.Args[2:]))
	case "list":
		hs, err := loadTable()
		if err != nil {
			fmt.Fprintln(os.Stderr, err)
			os.Exit(2)
		}
		for _, h := range hs {
			fmt.Printf("%s %s %s.%s\n", h.Property, h.Name, h.Pkg, h.Func)
		}
	default:
		fmt.Fprintln(os.Stderr, "unknown command", os.Args[1])
		os.Exit(2)
	}
}

func loadTable() ([]Harness, error) {
	var all []Harness
	files, _ := filepath.Glob(filepath.Join(verifDir, "harness", "table*.json"))
	sort.Strings(files)
	for _, f := range files {
		b, err := os.ReadFile(f)
		if err != nil {
			return nil, err
		}
		var hs []Harness
		if err := json.Unmarshal(b, &hs); err != nil {
			return nil, fmt.Errorf("%s: %w", f, err)
		}
		all = append(all, hs...)
	}
	return all, nil
}

func loadKnown() []KnownFinding {
	b, err := os.ReadFile(filepath.Join(verifDir, "known_findings.json"))
	if err != nil {
		return nil
	}
	var ks []KnownFinding
	if json.Unmarshal(b, &ks) != nil {
		return nil
	}
	return ks
}

func goEnv() []string {
	env := os.Environ()
	env = append(env, "GOFLAGS=-mod=mod", "GOPROXY=off", "GOSUMDB=off", "GOTOOLCHAIN=local")
	if os.Getenv("GOMAXPROCS") == "" {
		env = append(env, "GOMAXPROCS=4")
	}
	return env
}

type loaded struct {
	prog    *ssa.Program
	pkgs    []*packages.Package
	overlay map[string][]byte
	repl    map[string][]string
	sizes   interface{}
	loadS   float64
}

func load() (*loaded, error) {
	start := time.Now()
	ov, repl, err := buildOverlay(repoDir, verifDir)
	if err != nil {
		return nil, err
	}
	cfg := &packages.Config{
		Mode: packages.NeedName | packages.NeedFiles | packages.NeedCompiledGoFiles | packages.NeedImports |
			packages.NeedDeps | packages.NeedTypes | packages.NeedSyntax | packages.NeedTypesInfo | packages.NeedTypesSizes,
		Dir:     repoDir,
		Overlay: ov,
		Env:     goEnv(),
	}
	pkgs, err := packages.Load(cfg, "./...")
	if err != nil {
		return nil, err
	}
	if os.Getenv("GOSYM_TIMING") != "" {
		fmt.Fprintf(os.Stderr, "timing: packages.Load %.1fs\n", time.Since(start).Seconds())
	}
	var errs []string
	packages.Visit(pkgs, nil, func(p *packages.Package) {
		for _, e := range p.Errors {
			errs = append(errs, e.Error())
		}
	})
	if len(errs) > 0 {
		if len(errs) > 12 {
			errs = errs[:12]
		}
		return nil, fmt.Errorf("loading /repo with the harness overlay failed:\n  %s", strings.Join(errs, "\n  "))
	}
	prog, _ := ssautil.AllPackages(pkgs, ssa.InstantiateGenerics)
	prog.Build()
	// the SSA program is a large, long-lived heap: collect rarely during exploration
	runtime.GC()
	debug.SetGCPercent(400)
	if os.Getenv("GOSYM_TIMING") != "" {
		fmt.Fprintf(os.Stderr, "timing: +ssa build %.1fs\n", time.Since(start).Seconds())
	}
	return &loaded{prog: prog, pkgs: pkgs, overlay: ov, repl: repl, loadS: time.Since(start).Seconds()}, nil
}

var initPrefixes = []string{
	"github.com/olareg/olareg",
	"github.com/opencontainers/go-digest",
	"io", "io/fs", "internal/oserror", "bytes", "context", "sort", "slices", "cmp",
	"unicode/utf8", "encoding/base64", "encoding/hex", "encoding/binary", "math/bits", "strconv",
	"internal/itoa", "internal/byteorder",
}

var forbiddenPkgs = map[string]string{
	"os":            "real file system",
	"syscall":       "system calls",
	"net":           "real network",
	"os/signal":     "signals",
	"os/exec":       "processes",
	"runtime":       "Go runtime",
	"reflect":       "reflection",
	"log/slog":      "logging is stubbed",
	"internal/poll": "real I/O",
	"time":          "time is modelled by vclock; only Time arithmetic is intercepted",
	"sync/atomic":   "atomics are not modelled",
	"crypto/rand":   "randomness is modelled by vrand",
	"encoding/json": "json runs natively on mirror types",
	"regexp":        "regexp runs natively",
	"github.com/spf13/cobra": "CLI framework outside the claim",
	"github.com/spf13/pflag": "CLI framework outside the claim",
}

// ---- check ----

type harnessOutcome struct {
	diffLines int
	lemmas []lemmaResult
	solver string
	h      Harness
	res    *interp.Result
	tc     TierConf
	status string // held | violation | inconclusive
	why    []string
	newV   []vrec
	knownV []vrec
	spur   []vrec
}

type vrec struct {
	v      interp.Violation
	replay string
	repro  string // reproduced | not-reproduced | not-replayable
	known  *KnownFinding
}

func cmdCheck(args []string) int {
	fs := flag.NewFlagSet("check", flag.ExitOnError)
	prop := fs.String("prop", "", "property id")
	tier := fs.String("tier", "quick", "quick|thorough")
	only := fs.String("harness", "", "regexp on harness name")
	workers := fs.Int("workers", 0, "worker count (default: all cores)")
	solver := fs.String("solver", "z3", "z3|z3-new|cvc5")
	trace := fs.Bool("trace", false, "trace instructions")
	noReplay := fs.Bool("noreplay", false, "do not replay counterexamples natively")
	noEvidence := fs.Bool("noevidence", false, "do not write the evidence file")
	fs.Parse(args)
	if t := os.Getenv("VERIF_TIER"); t == "quick" || t == "thorough" {
		if !isFlagSet(fs, "tier") {
			*tier = t
		}
	}
	if *prop == "" {
		fmt.Fprintln(os.Stderr, "check: -prop required")
		return 2
	}
	if *workers == 0 {
		*workers = runtime.NumCPU()
	}
	seed := 0
	if s := os.Getenv("VERIF_SEED"); s != "" {
		seed, _ = strconv.Atoi(s)
	}
	start := time.Now()
	table, err := loadTable()
	if err != nil {
		fmt.Printf("INCONCLUSIVE property=%s reason=%v\n", *prop, err)
		return 2
	}
	var hs []Harness
	var re *regexp.Regexp
	if *only != "" {
		re = regexp.MustCompile(*only)
	}
	for _, h := range table {
		if h.Property == *prop && (re == nil || re.MatchString(h.Name)) {
			hs = append(hs, h)
		}
	}
	if len(hs) == 0 {
		fmt.Printf("INCONCLUSIVE property=%s reason=no harness registered\n", *prop)
		return 2
	}
	ld, err := load()
	if err != nil {
		fmt.Printf("INCONCLUSIVE property=%s reason=%s\n", *prop, strings.ReplaceAll(err.Error(), "\n", " | "))
		return 2
	}
	known := loadKnown()
	scratch, err := os.MkdirTemp("", "gosym-")
	if err != nil {
		fmt.Printf("INCONCLUSIVE property=%s reason=%v\n", *prop, err)
		return 2
	}
	defer os.RemoveAll(scratch)

	var outs []*harnessOutcome
	for _, h := range hs {
		tc := h.Quick
		if *tier == "thorough" && h.Thorough != nil {
			tc = mergeTier(h.Quick, *h.Thorough)
		}
		if tc.Skip {
			continue
		}
		o := runHarness(ld, h, tc, *workers, *solver, *trace, *tier)
		outs = append(outs, o)
		classify(o, ld, known, scratch, *noReplay, *prop)
		if h.Differential {
			diffs, n := differential(ld, o, scratch)
			o.diffLines = n
			if diffs != "" {
				o.status = "inconclusive"
				o.why = append(o.why, "translator validation: engine and native results differ: "+diffs)
			}
		}
		if h.Lemmas != "" {
			var notes []string
			for _, s := range o.res.Samples {
				notes = append(notes, s.Notes...)
			}
			lr, viol, inc := checkLemmas(h.Lemmas, notes, *tier == "thorough")
			o.lemmas = lr
			for _, v := range viol {
				iv := interp.Violation{Harness: h.Func, AssertID: "lemma", Msg: v, Tags: map[string]string{}}
				rec := vrec{v: iv, repro: "reproduced"}
				rec.replay = writeReplay(*prop, o, iv)
				if k := matchKnown(known, *prop, iv); k != nil {
					rec.known = k
					o.knownV = append(o.knownV, rec)
				} else {
					o.newV = append(o.newV, rec)
					o.status = "violation"
				}
			}
			if len(inc) > 0 && o.status != "violation" {
				o.status = "inconclusive"
			}
			o.why = append(o.why, inc...)
		}
		fmt.Fprintf(os.Stderr, "[%s] %s: %s paths=%d steps=%d queries=%d (sat %d, unsat %d) solver=%.1fs wall=%.1fs %s\n",
			h.Property, h.Name, o.status, o.res.Paths, o.res.Steps, o.res.Solver.Queries, o.res.Solver.Sat, o.res.Solver.Unsat,
			o.res.Solver.Duration.Seconds(), o.res.Wall.Seconds(), strings.Join(o.why, "; "))
	}
	// verdict
	exit := 0
	printedKnown := map[string]bool{}
	for _, o := range outs {
		for _, v := range o.knownV {
			line := fmt.Sprintf("KNOWN-FINDING: property=%s %s", *prop, v.known.What)
			if !printedKnown[line] {
				printedKnown[line] = true
				fmt.Println(line)
			}
		}
	}
	for _, o := range outs {
		for _, v := range o.newV {
			fmt.Printf("VIOLATION property=%s replay=%s\n", *prop, v.replay)
			fmt.Fprintf(os.Stderr, "  harness=%s assert=%s tags=%v: %s\n", v.v.Harness, v.v.AssertID, v.v.Tags, v.v.Msg)
			exit = 1
		}
	}
	if exit == 0 {
		for _, o := range outs {
			if o.status == "inconclusive" {
				fmt.Printf("INCONCLUSIVE property=%s reason=%s: %s\n", *prop, o.h.Name, strings.Join(o.why, "; "))
				exit = 2
			}
		}
	}
	if !*noEvidence {
		if err := writeEvidence(*prop, *tier, seed, outs, ld, time.Since(start), *solver, exit); err != nil {
			fmt.Fprintln(os.Stderr, "evidence:", err)
			if exit == 0 {
				exit = 2
			}
		}
	}
	return exit
}

func isFlagSet(fs *flag.FlagSet, name string) bool {
	set := false
	fs.Visit(func(f *flag.Flag) {
		if f.Name == name {
			set = true
		}
	})
	return set
}

func mergeTier(q, t TierConf) TierConf {
	out := t
	if out.Params == nil {
		out.Params = map[string]int{}
	}
	for k, v := range q.Params {
		if _, ok := out.Params[k]; !ok {
			out.Params[k] = v
		}
	}
	if out.Unwind == 0 {
		out.Unwind = q.Unwind
	}
	if out.MaxConc == 0 {
		out.MaxConc = q.MaxConc
	}
	if out.MapOrder == 0 {
		out.MapOrder = q.MapOrder
	}
	if out.TimeoutS == 0 {
		out.TimeoutS = q.TimeoutS
	}
	if out.Solver == "" {
		out.Solver = q.Solver
	}
	if out.QueryMs == 0 {
		out.QueryMs = q.QueryMs
	}
	return out
}

func findFunc(ld *loaded, pkgPath, fn string) *ssa.Function {
	for _, p := range ld.prog.AllPackages() {
		if p.Pkg.Path() == pkgPath {
			return p.Func(fn)
		}
	}
	return nil
}

func runHarness(ld *loaded, h Harness, tc TierConf, workers int, solver string, trace bool, tier string) *harnessOutcome {
	o := &harnessOutcome{h: h, tc: tc}
	fn := findFunc(ld, h.Pkg, h.Func)
	if fn == nil {
		o.res = &interp.Result{Harness: h.Func}
		o.status = "inconclusive"
		o.why = []string{"harness function " + h.Pkg + "." + h.Func + " not found"}
		return o
	}
	cfg := &interp.Config{
		Workers:       workers,
		Solver:        solver,
		TimeoutMs:     10000,
		Unwind:        tc.Unwind,
		MaxSteps:      200_000_000,
		MaxConc:       tc.MaxConc,
		MaxPaths:      tc.MaxPaths,
		InitPrefixes:  initPrefixes,
		Forbidden:     forbiddenPkgs,
		MapOrder:      tc.MapOrder,
		Trace:         trace,
		MaxViolations: 200,
		Params:        tc.Params,
	}
	if tier == "thorough" {
		cfg.TimeoutMs = 60000
	}
	if tc.Solver != "" {
		cfg.Solver = tc.Solver
	}
	if tc.QueryMs > 0 {
		cfg.TimeoutMs = tc.QueryMs
	}
	o.solver = cfg.Solver
	if cfg.Unwind == 0 {
		cfg.Unwind = 32
	}
	if cfg.MaxConc == 0 {
		cfg.MaxConc = 16
	}
	if trace {
		cfg.Workers = 1
	}
	to := tc.TimeoutS
	if to == 0 {
		to = 600
	}
	cfg.Deadline = time.Now().Add(time.Duration(to) * time.Second)
	var sizes = ld.pkgs[0].TypesSizes
	if os.Getenv("GOMAXPROCS") == "" {
		runtime.GOMAXPROCS(cfg.Workers + 1)
	}
	o.res = interp.Explore(ld.prog, fn, cfg, sizes)
	return o
}

// classify decides the status of a harness run and replays counterexamples.
func classify(o *harnessOutcome, ld *loaded, known []KnownFinding, scratch string, noReplay bool, prop string) {
	r := o.res
	if len(r.Inconclusive) > 0 {
		o.status = "inconclusive"
		for k, w := range r.Inconclusive {
			if k >= 6 {
				o.why = append(o.why, fmt.Sprintf("... and %d more reasons", len(r.Inconclusive)-k))
				break
			}
			if len(w) > 400 {
				w = w[:400] + "..."
			}
			o.why = append(o.why, w)
		}
	}
	// vacuity: all declared cover points reached
	for _, c := range o.h.Covers {
		if r.Covers[c] == 0 {
			o.status = "inconclusive"
			o.why = append(o.why, "cover point never reached: "+c)
		}
	}
	if r.Paths == 0 {
		o.status = "inconclusive"
		o.why = append(o.why, "no feasible path (vacuous harness)")
	}
	// group violations by signature; replay candidates of a signature in the order found
	// until one reproduces (a step harness may reject a pre-state natively as unreachable,
	// the next counterexample of the same assertion may start from a reachable one)
	const maxCandidates = 12
	done := map[string]bool{}
	firstSpur := map[string]vrec{}
	var sigOrder []string
	bySig := map[string][]interp.Violation{}
	for _, v := range r.Violations {
		sig := v.Harness + "|" + v.AssertID + "|" + tagString(v.Tags)
		if len(bySig[sig]) >= maxCandidates {
			continue
		}
		if len(bySig[sig]) == 0 {
			sigOrder = append(sigOrder, sig)
		}
		bySig[sig] = append(bySig[sig], v)
	}
	// signatures are replayed concurrently (a native replay of a hang costs its whole
	// timeout), the candidates of one signature one after the other
	type sigResult struct {
		rec  vrec
		ok   bool
		spur *vrec
	}
	results := make([]sigResult, len(sigOrder))
	par := 8
	if o.h.Threads || noReplay {
		par = 1
	}
	sem := make(chan struct{}, par)
	var wg sync.WaitGroup
	for k, sig := range sigOrder {
		wg.Add(1)
		sem <- struct{}{}
		go func(k int, sig string) {
			defer wg.Done()
			defer func() { <-sem }()
			for _, v := range bySig[sig] {
				rec := vrec{v: v}
				rec.replay = writeReplay(prop, o, v)
				if noReplay {
					rec.repro = "not-replayed"
				} else if o.h.Threads {
					rec.repro = replayInEngine(ld, o.h, o.tc, v)
				} else {
					rec.repro = replayNative(ld, rec.replay, scratch)
				}
				if rec.repro == "not-reproduced" {
					if results[k].spur == nil {
						rc := rec
						results[k].spur = &rc
					}
					continue
				}
				results[k].rec, results[k].ok = rec, true
				return
			}
		}(k, sig)
	}
	wg.Wait()
	for k, sig := range sigOrder {
		res := results[k]
		if !res.ok {
			if res.spur != nil {
				firstSpur[sig] = *res.spur
			}
			continue
		}
		done[sig] = true
		rec := res.rec
		if kf := matchKnown(known, prop, rec.v); kf != nil {
			rec.known = kf
			o.knownV = append(o.knownV, rec)
		} else {
			o.newV = append(o.newV, rec)
		}
	}
	for _, sig := range sigOrder {
		if !done[sig] {
			o.spur = append(o.spur, firstSpur[sig])
		}
	}
	if len(o.spur) > 0 {
		o.status = "inconclusive"
		for _, s := range o.spur {
			o.why = append(o.why, "counterexample did not reproduce natively (encoding or model wrong): "+s.replay)
		}
	}
	if len(o.newV) > 0 {
		o.status = "violation"
	}
	if o.status == "" {
		o.status = "held"
	}
}

func tagString(t map[string]string) string {
	var ks []string
	for k := range t {
		ks = append(ks, k)
	}
	sort.Strings(ks)
	var sb strings.Builder
	for _, k := range ks {
		sb.WriteString(k + "=" + t[k] + ";")
	}
	return sb.String()
}

func matchKnown(known []KnownFinding, prop string, v interp.Violation) *KnownFinding {
	for k := range known {
		kf := &known[k]
		if kf.Status != "known" || kf.Property != prop {
			continue
		}
		if kf.Harness != "" && kf.Harness != v.Harness {
			continue
		}
		if kf.AssertID != "" && kf.AssertID != v.AssertID {
			continue
		}
		ok := true
		for tk, tv := range kf.Tags {
			if v.Tags[tk] != tv {
				ok = false
			}
		}
		if ok {
			return kf
		}
	}
	return nil
}

type replayFile struct {
	Property string               `json:"property"`
	Harness  string               `json:"harness"`
	Package  string               `json:"package"`
	AssertID string               `json:"assert_id"`
	Message  string               `json:"message"`
	Tags     map[string]string    `json:"tags,omitempty"`
	Params   map[string]int       `json:"params,omitempty"`
	Inputs   []interp.ReplayInput `json:"inputs"`
	Notes    []string             `json:"notes,omitempty"`
	Decisions []interp.Decision   `json:"decisions,omitempty"`
	Threads  bool                 `json:"threads,omitempty"`
}

func writeReplay(prop string, o *harnessOutcome, v interp.Violation) string {
	dir := filepath.Join(verifDir, "replays", prop)
	os.MkdirAll(dir, 0o755)
	name := fmt.Sprintf("%s-%s", o.h.Func, sanitize(v.AssertID+"-"+tagString(v.Tags)))
	if len(name) > 120 {
		name = name[:120]
	}
	path := filepath.Join(dir, name+".json")
	rf := replayFile{Property: prop, Harness: o.h.Func, Package: o.h.Pkg, AssertID: v.AssertID, Message: v.Msg,
		Tags: v.Tags, Params: o.tc.Params, Inputs: v.Inputs, Notes: v.Trace}
	if o.h.Threads {
		rf.Threads = true
		rf.Decisions = v.Decisions
	}
	b, _ := json.MarshalIndent(rf, "", " ")
	os.WriteFile(path, b, 0o644)
	return path
}

func sanitize(s string) string {
	return strings.Map(func(r rune) rune {
		if r >= 'a' && r <= 'z' || r >= 'A' && r <= 'Z' || r >= '0' && r <= '9' || r == '-' || r == '_' || r == '.' {
			return r
		}
		return '_'
	}, s)
}

// replayInEngine re-executes one schedule-dependent counterexample with every decision
// pinned (deterministic): the Go scheduler cannot be steered natively, so for
// thread-mode harnesses the replay is the engine run of exactly that schedule.
func replayInEngine(ld *loaded, h Harness, tc TierConf, v interp.Violation) string {
	fn := findFunc(ld, h.Pkg, h.Func)
	if fn == nil {
		return "not-replayable"
	}
	cfg := &interp.Config{Workers: 1, Solver: "z3", TimeoutMs: 10000, Unwind: 64, MaxSteps: 200_000_000, MaxConc: 64,
		MaxPaths: 1, InitPrefixes: initPrefixes, Forbidden: forbiddenPkgs, MapOrder: tc.MapOrder, MaxViolations: 10,
		Params: tc.Params, Pinned: v.Decisions}
	res := interp.Explore(ld.prog, fn, cfg, ld.pkgs[0].TypesSizes)
	for _, rv := range res.Violations {
		if rv.AssertID == v.AssertID {
			return "reproduced"
		}
	}
	return "not-reproduced"
}

// differential runs an input-free harness natively and compares its notes with the
// notes of the (single) engine path.
func differential(ld *loaded, o *harnessOutcome, scratch string) (string, int) {
	var engineNotes []string
	for _, s := range o.res.Samples {
		if len(s.Notes) > len(engineNotes) {
			engineNotes = s.Notes
		}
	}
	rf := replayFile{Property: o.h.Property, Harness: o.h.Func, Package: o.h.Pkg, Params: o.tc.Params}
	dir := filepath.Join(verifDir, "replays", o.h.Property)
	os.MkdirAll(dir, 0o755)
	path := filepath.Join(dir, o.h.Func+"-differential.json")
	b, _ := json.MarshalIndent(rf, "", " ")
	os.WriteFile(path, b, 0o644)
	out, _ := runReplay(ld.overlay, rf, path, scratch)
	var nativeNotes []string
	for _, l := range strings.Split(out, "\n") {
		if strings.HasPrefix(l, "  note: ") {
			nativeNotes = append(nativeNotes, strings.TrimPrefix(l, "  note: "))
		}
	}
	if !strings.Contains(out, "VHREPLAY outcome=passed") {
		return "native run did not pass: " + firstLines(out, 5), 0
	}
	if len(engineNotes) != len(nativeNotes) {
		return fmt.Sprintf("%d engine notes vs %d native notes", len(engineNotes), len(nativeNotes)), len(engineNotes)
	}
	for k := range engineNotes {
		if engineNotes[k] != nativeNotes[k] {
			return fmt.Sprintf("line %d: engine %q native %q", k, engineNotes[k], nativeNotes[k]), len(engineNotes)
		}
	}
	return "", len(engineNotes)
}

func firstLines(s string, n int) string {
	ls := strings.Split(s, "\n")
	if len(ls) > n {
		ls = ls[:n]
	}
	return strings.Join(ls, " | ")
}

// ---- native replay ----

const replayTestTmpl = `package %s

import (
	"fmt"
	"testing"

	"github.com/olareg/olareg/internal/verifenv/vh"
)

func vhReplayOnce() (outcome string) {
	outcome = "passed"
	defer func() {
		if r := recover(); r != nil {
			switch r := r.(type) {
			case vh.StopReplay:
				if r.ID != "" {
					outcome = "assert:" + r.ID
				}
			case vh.AssumeFailed:
				outcome = "assume-failed"
			default:
				outcome = fmt.Sprintf("panic:%%v", r)
			}
		}
	}()
	%s()
	return
}

func TestVHReplay(t *testing.T) {
	if err := vh.LoadReplay(%q); err != nil {
		t.Fatal(err)
	}
	outcome := vhReplayOnce()
	// map iteration order is random natively: repeat until the recorded order comes up
	// (olareg itself ranges over maps in places, so every replay gets a few attempts)
	for n := 0; (n < 200 && vh.OrderSensitive() || n < 8) && (outcome == "passed" || (len(outcome) > 5 && outcome[:5] == "panic" && vh.OrderSensitive())); n++ {
		vh.Rewind()
		outcome = vhReplayOnce()
	}
	fmt.Println("VHREPLAY outcome=" + outcome)
	for _, n := range vh.Notes() {
		fmt.Println("  note:", n)
	}
	if outcome != "passed" {
		t.Fatalf("replay reproduced: %%s", outcome)
	}
}
`

// replayNative runs the harness natively on the recorded inputs.
func replayNative(ld *loaded, replayPath, scratch string) string {
	b, err := os.ReadFile(replayPath)
	if err != nil {
		return "not-replayable"
	}
	var rf replayFile
	if json.Unmarshal(b, &rf) != nil {
		return "not-replayable"
	}
	out, _ := runReplay(ld.overlay, rf, replayPath, scratch)
	switch {
	case strings.Contains(out, "VHREPLAY outcome=passed"):
		return "not-reproduced"
	case strings.Contains(out, "VHREPLAY outcome=assume-failed"):
		return "not-reproduced"
	case strings.Contains(out, "VHREPLAY outcome="):
		return "reproduced"
	case strings.Contains(out, "fatal error: all goroutines are asleep - deadlock") || strings.Contains(out, "panic: test timed out"):
		return "reproduced"
	}
	fmt.Fprintln(os.Stderr, "replay produced no outcome:\n"+out)
	return "not-reproduced"
}

func runReplay(overlay map[string][]byte, rf replayFile, replayPath, scratch string) (string, error) {
	// package dir and name
	var pkgDir, pkgName string
	rel := strings.TrimPrefix(rf.Package, "github.com/olareg/olareg")
	pkgDir = filepath.Join(repoDir, rel)
	// package name: from an overlay file or a real file of that dir
	pkgName = filepath.Base(rf.Package)
	for p, src := range overlay {
		if filepath.Dir(p) == pkgDir && strings.Contains(filepath.Base(p), "zz_vh") {
			if m := regexp.MustCompile(`(?m)^package (\w+)`).FindSubmatch(src); m != nil {
				pkgName = string(m[1])
			}
		}
	}
	ovDir, err := os.MkdirTemp(scratch, "ov")
	if err != nil {
		return "", err
	}
	repl := map[string]string{}
	n := 0
	for p, src := range overlay {
		n++
		f := filepath.Join(ovDir, fmt.Sprintf("f%d_%s", n, filepath.Base(p)))
		if err := os.WriteFile(f, src, 0o644); err != nil {
			return "", err
		}
		repl[p] = f
	}
	testSrc := fmt.Sprintf(replayTestTmpl, pkgName, rf.Harness, replayPath)
	tf := filepath.Join(ovDir, "zz_vh_replay_test.go")
	os.WriteFile(tf, []byte(testSrc), 0o644)
	repl[filepath.Join(pkgDir, "zz_vh_replay_test.go")] = tf
	ovJSON, _ := json.Marshal(map[string]interface{}{"Replace": repl})
	ovFile := filepath.Join(ovDir, "overlay.json")
	os.WriteFile(ovFile, ovJSON, 0o644)
	cmd := exec.Command("go", "test", "-vet=off", "-count=1", "-timeout=40s", "-overlay", ovFile, "-run", "^TestVHReplay$", "-v", ".")
	cmd.Dir = pkgDir
	cmd.Env = goEnv()
	out, err := cmd.CombinedOutput()
	return string(out), err
}

func cmdReplay(args []string) int {
	fs := flag.NewFlagSet("replay", flag.ExitOnError)
	file := fs.String("file", "", "replay file")
	fs.Parse(args)
	if *file == "" && fs.NArg() > 0 {
		*file = fs.Arg(0)
	}
	b, err := os.ReadFile(*file)
	if err != nil {
		fmt.Fprintln(os.Stderr, err)
		return 2
	}
	var rf replayFile
	if err := json.Unmarshal(b, &rf); err != nil {
		fmt.Fprintln(os.Stderr, err)
		return 2
	}
	if rf.Threads {
		ld, err := load()
		if err != nil {
			fmt.Fprintln(os.Stderr, err)
			return 2
		}
		h := Harness{Pkg: rf.Package, Func: rf.Harness}
		v := interp.Violation{AssertID: rf.AssertID, Decisions: rf.Decisions}
		r := replayInEngine(ld, h, TierConf{Params: rf.Params}, v)
		fmt.Println("engine replay of the recorded schedule:", r)
		for _, n := range rf.Notes {
			fmt.Println("  ", n)
		}
		if r == "reproduced" {
			abs, _ := filepath.Abs(*file)
			fmt.Printf("VIOLATION property=%s replay=%s\n", rf.Property, abs)
			return 1
		}
		return 0
	}
	ov, _, err := buildOverlay(repoDir, verifDir)
	if err != nil {
		fmt.Fprintln(os.Stderr, err)
		return 2
	}
	scratch, _ := os.MkdirTemp("", "gosym-replay-")
	defer os.RemoveAll(scratch)
	abs, _ := filepath.Abs(*file)
	out, _ := runReplay(ov, rf, abs, scratch)
	fmt.Print(out)
	if strings.Contains(out, "VHREPLAY outcome=passed") {
		fmt.Println("replay: property held on this input (violation not reproduced)")
		return 0
	}
	fmt.Printf("VIOLATION property=%s replay=%s\n", rf.Property, abs)
	return 1
}
