package main

// Regular-language lemmas (C16): the repository grammar of the CURRENT source is
// translated from regexp/syntax to SMT-LIB regular expressions and the lemmas are
// decided by z3-new's sequence solver for names of unbounded length (cvc5 as second
// opinion in the thorough tier).  A model is confirmed natively with package regexp.

import (
	"fmt"
	"os/exec"
	"regexp"
	"regexp/syntax"
	"strings"
	"time"
	"unicode/utf8"
)

type lemma struct {
	ID     string
	What   string
	SMT    string // assertions over string variables; unsat = lemma holds
	Vars   []string
	Native func(m map[string]string) bool // does the model really violate the lemma?
}

type lemmaResult struct {
	ID      string  `json:"id"`
	What    string  `json:"what"`
	Verdict string  `json:"verdict"` // unsat | sat | unknown
	Model   map[string]string `json:"model,omitempty"`
	Seconds float64 `json:"seconds"`
	Solver  string  `json:"solver"`
	Second  string  `json:"second_opinion,omitempty"`
}

func smtStr(s string) string {
	var sb strings.Builder
	sb.WriteByte('"')
	for _, r := range s {
		if r == '"' {
			sb.WriteString(`""`)
		} else if r < 32 || r > 126 {
			fmt.Fprintf(&sb, `\u{%x}`, r)
		} else {
			sb.WriteRune(r)
		}
	}
	sb.WriteByte('"')
	return sb.String()
}

// reToSMT translates a parsed regexp; anchors must only occur at the ends.
func reToSMT(re *syntax.Regexp) (string, error) {
	switch re.Op {
	case syntax.OpEmptyMatch, syntax.OpBeginText, syntax.OpEndText, syntax.OpBeginLine, syntax.OpEndLine:
		return `(str.to_re "")`, nil
	case syntax.OpLiteral:
		if re.Flags&syntax.FoldCase != 0 {
			return "", fmt.Errorf("case folding not supported")
		}
		return "(str.to_re " + smtStr(string(re.Rune)) + ")", nil
	case syntax.OpCharClass:
		var parts []string
		for i := 0; i+1 < len(re.Rune); i += 2 {
			lo, hi := re.Rune[i], re.Rune[i+1]
			if hi > 126 {
				hi = 126 // names are ASCII in every lemma (asserted separately)
			}
			if lo > hi {
				continue
			}
			if lo == hi {
				parts = append(parts, "(str.to_re "+smtStr(string(lo))+")")
			} else {
				parts = append(parts, "(re.range "+smtStr(string(lo))+" "+smtStr(string(hi))+")")
			}
		}
		if len(parts) == 0 {
			return "re.none", nil
		}
		if len(parts) == 1 {
			return parts[0], nil
		}
		return "(re.union " + strings.Join(parts, " ") + ")", nil
	case syntax.OpAnyCharNotNL, syntax.OpAnyChar:
		return "re.allchar", nil
	case syntax.OpCapture:
		return reToSMT(re.Sub[0])
	case syntax.OpStar, syntax.OpPlus, syntax.OpQuest:
		s, err := reToSMT(re.Sub[0])
		if err != nil {
			return "", err
		}
		op := map[syntax.Op]string{syntax.OpStar: "re.*", syntax.OpPlus: "re.+", syntax.OpQuest: "re.opt"}[re.Op]
		return "(" + op + " " + s + ")", nil
	case syntax.OpRepeat:
		s, err := reToSMT(re.Sub[0])
		if err != nil {
			return "", err
		}
		if re.Max < 0 {
			return fmt.Sprintf("(re.++ ((_ re.^ %d) %s) (re.* %s))", re.Min, s, s), nil
		}
		return fmt.Sprintf("((_ re.loop %d %d) %s)", re.Min, re.Max, s), nil
	case syntax.OpConcat, syntax.OpAlternate:
		var parts []string
		for _, sub := range re.Sub {
			s, err := reToSMT(sub)
			if err != nil {
				return "", err
			}
			parts = append(parts, s)
		}
		op := "re.++"
		if re.Op == syntax.OpAlternate {
			op = "re.union"
		}
		if len(parts) == 1 {
			return parts[0], nil
		}
		return "(" + op + " " + strings.Join(parts, " ") + ")", nil
	}
	return "", fmt.Errorf("regexp operator %v not supported", re.Op)
}

func patternToSMT(pat string) (string, error) {
	if !strings.HasPrefix(pat, "^") || !strings.HasSuffix(pat, "$") {
		return "", fmt.Errorf("pattern %q is not anchored at both ends", pat)
	}
	re, err := syntax.Parse(pat, syntax.Perl)
	if err != nil {
		return "", err
	}
	return reToSMT(re)
}

func nativeHasComponent(n, c string) bool {
	for _, p := range strings.Split(n, "/") {
		if p == c {
			return true
		}
	}
	return false
}

// compRe: the regular language of names that have path component c.
func compRe(c string) string {
	if c == "" {
		return `(re.union (str.to_re "") (re.++ (str.to_re "/") re.all) (re.++ re.all (str.to_re "/")) (re.++ re.all (str.to_re "//") re.all))`
	}
	return fmt.Sprintf(`(re.union (str.to_re %s) (re.++ (str.to_re %s) re.all) (re.++ re.all (str.to_re %s)) (re.++ re.all (str.to_re %s) re.all))`,
		smtStr(c), smtStr(c+"/"), smtStr("/"+c), smtStr("/"+c+"/"))
}

func c16Lemmas(rePath string) ([]lemma, error) {
	g, err := patternToSMT(rePath)
	if err != nil {
		return nil, err
	}
	native := regexp.MustCompile(rePath)
	reserved := []string{"index.json", "oci-layout", "blobs"}
	var resParts []string
	for _, r := range reserved {
		resParts = append(resParts, compRe(r))
	}
	res := "(re.union " + strings.Join(resParts, " ") + ")"
	gr := "(re.inter " + g + " (re.comp " + res + "))"
	nativeGR := func(n string) bool {
		if !native.MatchString(n) {
			return false
		}
		for _, r := range reserved {
			if nativeHasComponent(n, r) {
				return false
			}
		}
		return true
	}
	allowedChars := `(re.* (re.union (re.range "a" "z") (re.range "0" "9") (str.to_re ".") (str.to_re "_") (str.to_re "/") (str.to_re "-")))`
	hex := `(re.+ (re.union (re.range "0" "9") (re.range "a" "f")))`
	digits := `(re.+ (re.range "0" "9"))`
	alg := `(re.union (str.to_re "sha256") (str.to_re "sha384") (str.to_re "sha512"))`
	// the store's PERSISTENT file shapes below a repository directory
	suffix := fmt.Sprintf(`(re.union (str.to_re "/index.json") (str.to_re "/oci-layout") (str.to_re "/blobs") (str.to_re "/_uploads") (re.++ (str.to_re "/blobs/") %s) (re.++ (str.to_re "/blobs/") %s (str.to_re "/") %s) (re.++ (str.to_re "/_uploads/upload.") %s))`, alg, alg, hex, digits)
	nativeSuffix := regexp.MustCompile(`^(/index\.json|/oci-layout|/blobs|/_uploads|/blobs/sha(256|384|512)|/blobs/sha(256|384|512)/[0-9a-f]+|/_uploads/upload\.[0-9]+)(/.*)?$`)
	mem := func(re string) string { return "(assert (str.in_re w " + re + "))" }
	// the repository grammar of the OCI distribution specification
	const specGrammar = `^[a-z0-9]+((\.|_|__|-+)[a-z0-9]+)*(/[a-z0-9]+((\.|_|__|-+)[a-z0-9]+)*)*$`
	spec, err := patternToSMT(specGrammar)
	if err != nil {
		return nil, err
	}
	nativeSpec := regexp.MustCompile(specGrammar)
	ls := []lemma{
		{ID: "L0", What: "every name the code routes is a repository name of the OCI distribution-spec grammar [a-z0-9]+((\\.|_|__|-+)[a-z0-9]+)*(/...)*: L(rePath) is included in L(spec)",
			Vars: []string{"w"},
			SMT:  mem(g) + "\n" + mem("(re.comp "+spec+")"),
			Native: func(m map[string]string) bool {
				return native.MatchString(m["w"]) && !nativeSpec.MatchString(m["w"])
			}},
		{ID: "L1a", What: "no name of the grammar has an empty, '.' or '..' component or a leading/trailing '/': filepath.Join(root,name) is root/name lexically",
			Vars: []string{"w"},
			SMT:  mem(g) + "\n" + mem("(re.union "+compRe("")+" "+compRe(".")+" "+compRe("..")+")"),
			Native: func(m map[string]string) bool {
				n := m["w"]
				return native.MatchString(n) && (nativeHasComponent(n, "") || nativeHasComponent(n, ".") || nativeHasComponent(n, ".."))
			}},
		{ID: "L1b", What: "every name of the grammar consists of bytes in [a-z0-9._/-] only",
			Vars: []string{"w"},
			SMT:  mem(g) + "\n" + mem("(re.comp "+allowedChars+")"),
			Native: func(m map[string]string) bool {
				n := m["w"]
				if !native.MatchString(n) {
					return false
				}
				for _, r := range n {
					if !(r >= 'a' && r <= 'z' || r >= '0' && r <= '9' || strings.ContainsRune("._/-", r)) {
						return true
					}
				}
				return false
			}},
		{ID: "L2", What: "'_uploads' (the store's upload directory) is not a component of any name of the grammar",
			Vars: []string{"w"},
			SMT:  mem(g) + "\n" + mem(compRe("_uploads")),
			Native: func(m map[string]string) bool {
				return native.MatchString(m["w"]) && nativeHasComponent(m["w"], "_uploads")
			}},
		{ID: "L3", What: "for names r1 != r2 of the grammar without reserved components, no persistent store path of r1 (r1/index.json, r1/oci-layout, r1/blobs[/alg[/hex]], r1/_uploads[/upload.N]) is the directory of r2 or a path below it: no string is both a non-reserved name and a non-reserved name followed by a store suffix (and anything after it)",
			Vars: []string{"w"},
			SMT:  mem(gr) + "\n" + mem("(re.++ "+gr+" "+suffix+" (re.opt (re.++ (str.to_re \"/\") re.all)))"),
			Native: func(m map[string]string) bool {
				w := m["w"]
				if !nativeGR(w) {
					return false
				}
				for k := 1; k < len(w); k++ {
					if nativeGR(w[:k]) && nativeSuffix.MatchString(w[k:]) {
						return true
					}
				}
				return false
			}},
		{ID: "W1", What: "witness (must be satisfiable): the grammar contains nested names",
			Vars: []string{"w"},
			SMT:  mem(gr) + "\n" + mem("(re.++ re.all (str.to_re \"/\") re.all)"),
			Native: func(m map[string]string) bool { return nativeGR(m["w"]) && strings.Contains(m["w"], "/") }},
		{ID: "W2", What: "witness (must be satisfiable): the store's reserved-component check is load-bearing: without it L3 fails (some name of the grammar has the component index.json)",
			Vars: []string{"w"},
			SMT:  mem(g) + "\n" + mem("(re.++ "+g+" "+suffix+" (re.opt (re.++ (str.to_re \"/\") re.all)))"),
			Native: func(m map[string]string) bool { return native.MatchString(m["w"]) }},
		{ID: "W3", What: "observation (satisfiable, not part of the claim): a TRANSIENT temp file r/index.json.<digits> of repository r has the name of a possible nested repository r/index.json.<digits>; os.CreateTemp never reuses an existing name",
			Vars: []string{"w"},
			SMT:  mem(gr) + "\n" + mem("(re.++ "+gr+" (str.to_re \"/index.json.\") "+digits+")"),
			Native: func(m map[string]string) bool { return nativeGR(m["w"]) }},
	}
	return ls, nil
}

func runSMT(solver string, script string, timeout time.Duration) (string, error) {
	var cmd *exec.Cmd
	switch solver {
	case "z3-new":
		cmd = exec.Command("z3-new", "-in", "-smt2", fmt.Sprintf("-T:%d", int(timeout.Seconds())))
	case "cvc5":
		cmd = exec.Command("cvc5", "--lang=smt2", "--strings-exp", "--produce-models", fmt.Sprintf("--tlimit=%d", timeout.Milliseconds()))
	default:
		cmd = exec.Command(solver, "-in", "-smt2", fmt.Sprintf("-T:%d", int(timeout.Seconds())))
	}
	cmd.Stdin = strings.NewReader(script)
	out, err := cmd.CombinedOutput()
	return string(out), err
}

func parseStringModel(out string, vars []string) map[string]string {
	m := map[string]string{}
	for _, v := range vars {
		re := regexp.MustCompile(`\(` + v + ` "((?:[^"]|"")*)"\)`)
		if mm := re.FindStringSubmatch(out); mm != nil {
			s := strings.ReplaceAll(mm[1], `""`, `"`)
			// \u{..} escapes
			s = regexp.MustCompile(`\\u\{([0-9a-fA-F]+)\}`).ReplaceAllStringFunc(s, func(e string) string {
				var r rune
				fmt.Sscanf(e[3:len(e)-1], "%x", &r)
				if utf8.ValidRune(r) {
					return string(r)
				}
				return "?"
			})
			m[v] = s
		}
	}
	return m
}

// checkLemmas decides the lemmas; witnesses (IDs starting with W) must be sat.
func checkLemmas(kind string, notes []string, thorough bool) ([]lemmaResult, []string, []string) {
	var rePath string
	for _, n := range notes {
		if strings.HasPrefix(n, "rePath=") {
			rePath = n[len("rePath="):]
		}
	}
	var violations, inconclusive []string
	if rePath == "" {
		return nil, nil, []string{"pattern rePath not reported by the harness"}
	}
	ls, err := c16Lemmas(rePath)
	if err != nil {
		return nil, nil, []string{"cannot translate rePath: " + err.Error()}
	}
	var results []lemmaResult
	for _, l := range ls {
		var sb strings.Builder
		for _, v := range l.Vars {
			fmt.Fprintf(&sb, "(declare-const %s String)\n", v)
		}
		sb.WriteString(l.SMT + "\n(check-sat)\n(get-value (" + strings.Join(l.Vars, " ") + "))\n")
		start := time.Now()
		out, _ := runSMT("z3-new", sb.String(), 60*time.Second)
		r := lemmaResult{ID: l.ID, What: l.What, Solver: "z3-new (sequence solver)", Seconds: time.Since(start).Seconds()}
		first := strings.TrimSpace(strings.SplitN(out, "\n", 2)[0])
		r.Verdict = first
		if strings.Contains(out, "(error") && first != "sat" && first != "unsat" {
			r.Verdict = "unknown"
		}
		if first == "sat" {
			r.Model = parseStringModel(out, l.Vars)
		}
		if thorough {
			script := "(set-logic ALL)\n" + sb.String()
			o2, _ := runSMT("cvc5", script, 120*time.Second)
			r.Second = "cvc5: " + strings.TrimSpace(strings.SplitN(o2, "\n", 2)[0])
			if (strings.HasPrefix(o2, "sat") && first == "unsat") || (strings.HasPrefix(o2, "unsat") && first == "sat") {
				inconclusive = append(inconclusive, "solvers disagree on lemma "+l.ID)
			}
		}
		witness := strings.HasPrefix(l.ID, "W")
		switch {
		case r.Verdict != "sat" && r.Verdict != "unsat":
			inconclusive = append(inconclusive, "lemma "+l.ID+": solver answered "+r.Verdict)
		case witness && r.Verdict == "unsat":
			inconclusive = append(inconclusive, "witness "+l.ID+" is unsatisfiable: the lemma encoding is vacuous")
		case witness && !l.Native(r.Model):
			inconclusive = append(inconclusive, "witness "+l.ID+" model not confirmed natively")
		case !witness && r.Verdict == "sat":
			if l.Native(r.Model) {
				violations = append(violations, fmt.Sprintf("lemma %s fails: %v", l.ID, r.Model))
			} else {
				inconclusive = append(inconclusive, fmt.Sprintf("lemma %s: model %v not confirmed natively (translation wrong)", l.ID, r.Model))
			}
		}
		results = append(results, r)
	}
	return results, violations, inconclusive
}
