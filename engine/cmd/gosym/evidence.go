package main

import (
	"encoding/json"
	"fmt"
	"os"
	"os/exec"
	"path/filepath"
	"sort"
	"strings"
	"time"
)

func solverVersion(s string) string {
	suffix := ""
	if s == "cvc5-int" {
		s, suffix = "cvc5", " (--solve-bv-as-int=sum)"
	}
	defer func() { _ = suffix }()
	out, err := exec.Command(s, "--version").Output()
	if err != nil {
		return s
	}
	return strings.TrimSpace(strings.SplitN(string(out), "\n", 2)[0])
}

func writeEvidence(prop, tier string, seed int, outs []*harnessOutcome, ld *loaded, wall time.Duration, solver string, exit int) error {
	type hEv struct {
		Name          string            `json:"name"`
		Solver        string            `json:"solver"`
		Func          string            `json:"func"`
		What          string            `json:"what"`
		Status        string            `json:"status"`
		Why           []string          `json:"why,omitempty"`
		Bounds        map[string]int    `json:"bounds"`
		Unwind        int               `json:"unwind"`
		MaxConc       int               `json:"max_concretisation"`
		MapOrder      int               `json:"map_order_mode"`
		Paths         int64             `json:"paths"`
		Infeasible    int64             `json:"paths_cut_by_assumptions"`
		NonTrivial    int64             `json:"paths_with_symbolic_decisions"`
		MaxDecisions  int               `json:"max_decisions_on_a_path"`
		Queries       int               `json:"queries"`
		QSat          int               `json:"queries_sat"`
		QUnsat        int               `json:"queries_unsat"`
		QUnknown      int               `json:"queries_unknown"`
		SolverS       float64           `json:"solver_s"`
		WallS         float64           `json:"wall_s"`
		Steps         int64             `json:"ssa_instructions_executed"`
		UnwindHits    int64             `json:"unwind_hits"`
		Deadlocks     int64             `json:"deadlock_paths"`
		Covers        map[string]int64  `json:"cover_points"`
		Asserts       map[string]int64  `json:"assertion_obligations"`
		AssertsSym    int64             `json:"assertions_decided_by_solver"`
		Violations    int               `json:"violations_new"`
		Known         []string          `json:"known_findings_seen,omitempty"`
		Spurious      int               `json:"spurious_counterexamples"`
		ConcLoss      map[string]int64  `json:"text_only_concretisations,omitempty"`
		NativeCalls   map[string]int64  `json:"native_calls"`
		Lemmas        []lemmaResult     `json:"regular_language_lemmas,omitempty"`
		DiffLines     int               `json:"engine_vs_native_result_lines_compared,omitempty"`
	}
	var hev []hEv
	funcs := map[string]int{}
	libFuncs := map[string]int{}
	var samples []interface{}
	var paths, nontrivial, obligations, queries, qsat, qunsat int64
	var solverS float64
	var assumptions []string
	violations := 0
	for _, o := range outs {
		r := o.res
		e := hEv{Solver: solverVersion(o.solver), Name: o.h.Name, Func: o.h.Pkg + "." + o.h.Func, What: o.h.What, Status: o.status, Why: o.why,
			Bounds: o.tc.Params, Unwind: o.tc.Unwind, MaxConc: o.tc.MaxConc, MapOrder: o.tc.MapOrder,
			Paths: r.Paths, Infeasible: r.PathsInfeasible, NonTrivial: r.NonTrivial, MaxDecisions: r.MaxDecisions,
			Queries: r.Solver.Queries, QSat: r.Solver.Sat, QUnsat: r.Solver.Unsat, QUnknown: r.Solver.Unknown,
			SolverS: r.Solver.Duration.Seconds(), WallS: r.Wall.Seconds(), Steps: r.Steps, UnwindHits: r.UnwindHits,
			Deadlocks: r.Deadlocks, Covers: r.Covers, Asserts: r.Asserts, AssertsSym: r.AssertsSymbolic,
			Violations: len(o.newV), Spurious: len(o.spur), ConcLoss: r.ConcLoss, NativeCalls: r.NativeCalls}
		e.Lemmas = o.lemmas
		e.DiffLines = o.diffLines
		for _, l := range o.lemmas {
			obligations++
			queries++
			solverS += l.Seconds
			_ = l
		}
		if e.Unwind == 0 {
			e.Unwind = 32
		}
		if e.MaxConc == 0 {
			e.MaxConc = 16
		}
		for _, k := range o.knownV {
			e.Known = append(e.Known, k.known.What)
		}
		hev = append(hev, e)
		for f, n := range r.Funcs {
			funcs[f] = n
		}
		for f, n := range r.LibFuncs {
			libFuncs[f] = n
		}
		for _, s := range r.Samples {
			if len(samples) < 8 {
				samples = append(samples, map[string]interface{}{"harness": o.h.Name, "path": s})
			}
		}
		for _, v := range append(append([]vrec{}, o.newV...), o.knownV...) {
			if len(samples) < 12 {
				samples = append(samples, map[string]interface{}{"harness": o.h.Name, "counterexample": v.v.Inputs, "assert": v.v.AssertID, "replayed": v.repro})
			}
		}
		paths += r.Paths
		nontrivial += r.NonTrivial
		for _, n := range r.Asserts {
			obligations += n
		}
		queries += int64(r.Solver.Queries)
		qsat += int64(r.Solver.Sat)
		qunsat += int64(r.Solver.Unsat)
		solverS += r.Solver.Duration.Seconds()
		violations += len(o.newV)
		for _, a := range o.h.Assume {
			assumptions = append(assumptions, o.h.Name+": "+a)
		}
	}
	if len(samples) == 0 {
		samples = append(samples, "no completed path")
	}
	var fnList []string
	for f, n := range funcs {
		fnList = append(fnList, fmt.Sprintf("%s (%d instr)", f, n))
	}
	sort.Strings(fnList)
	var libList []string
	for f := range libFuncs {
		libList = append(libList, f)
	}
	sort.Strings(libList)
	var redirected []string
	for f, sels := range ld.repl {
		redirected = append(redirected, fmt.Sprintf("%s: %d selectors redirected", f, len(sels)))
	}
	sort.Strings(redirected)
	verdict := map[int]string{0: "held within bounds", 1: "violation", 2: "inconclusive"}[exit]
	assumptions = append(assumptions,
		"environment: os -> vos (in-memory POSIX-subset file system), time.Now/Since/AfterFunc/NewTicker -> vclock, crypto/rand -> vrand, http.ServeContent -> vhttp (range logic not modelled); same redirected sources are used for symbolic execution and native replay",
		"native call-outs on concrete arguments: strings, strconv, path, filepath, fmt, net/url, regexp, crypto hashes, encoding/json on reflect.StructOf mirror types",
		"log/slog calls have empty bodies; sync.Mutex/WaitGroup/Once, channels, select and go statements are modelled by the engine",
		"time.Time is modelled as 64-bit nanoseconds (Add/Sub/Before/After/Equal/IsZero); saturation at +-292 years is outside the claim",
		"trusted: go/ssa v0.29.0, the gosym interpreter, "+solverVersion(solver)+", Go compiler/runtime for native call-outs and replay")
	ev := map[string]interface{}{
		"property_id": prop,
		"tier":        tier,
		"seed":        seed,
		"level":       "other",
		"wall_s":      wall.Seconds(),
		"violations":  violations,
		"assumptions": assumptions,
		"coverage": map[string]interface{}{
			"explanation": "Bounded symbolic execution of the real olareg code (go/ssa built from /repo's working tree at check time) with an SMT solver deciding every symbolic branch, bounds check, division, assumption and assertion. Each harness is explored over ALL feasible paths within the bounds below: 'held' means every assertion obligation was shown unsatisfiable-to-violate (or concretely true) on every path, no unwind limit was hit, every declared cover point was reached and no solver answer was unknown. Nothing is claimed outside the stated bounds and candidate universes.",
			"verdict":             verdict,
			"evaluations":         paths,
			"distinct_nontrivial": nontrivial,
			"rule":                "evaluation = one feasible symbolic path explored to its end (each stands for the set of all inputs satisfying its path condition); non-trivial = the path took at least one solver-decided decision (symbolic branch, concretisation or symbolic assertion). Paths are distinct by construction: their decision sequences differ.",
			"samples":             samples,
			"obligations":         obligations,
			"discharged":          obligations - int64(violations),
			"queries":             queries,
			"queries_sat":         qsat,
			"queries_unsat":       qunsat,
			"solver_s":            solverS,
			"solver":              solverVersion(solver),
			"load_and_ssa_build_s": ld.loadS,
			"harnesses":           hev,
			"functions_encoded":   fnList,
			"library_functions_interpreted": libList,
			"redirected_sources":  redirected,
			"exhaustive":          exit == 0,
		},
	}
	b, err := json.MarshalIndent(ev, "", " ")
	if err != nil {
		return err
	}
	dir := filepath.Join(verifDir, "evidence")
	os.MkdirAll(dir, 0o755)
	return os.WriteFile(filepath.Join(dir, prop+".json"), b, 0o644)
}
