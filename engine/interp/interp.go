// Package interp is gosym's symbolic executor for Go SSA.
//
// It started as a copy of golang.org/x/tools/go/ssa/interp (BSD licence, see
// LICENSE.xtools): the boxed value representation and the concrete semantics of the
// SSA instructions are kept.  Added here: symbolic scalars (sym), forking by
// re-execution with a decision prefix, an SMT solver behind every symbolic branch,
// bounds check, division and assertion, deterministic maps, modelled goroutines,
// mutexes, wait groups and channels, native call-outs and a replay writer.
package interp

import (
	"fmt"
	"go/token"
	"go/types"
	"os"
	"runtime"
	"slices"
	"strings"

	"golang.org/x/tools/go/ssa"
)

type continuation int

const (
	kNext continuation = iota
	kReturn
	kJump
)

// State of one worker: an interpreter instance with its own globals and solver.
type interpreter struct {
	prog               *ssa.Program
	globals            map[*ssa.Global]*value
	initialised        map[*ssa.Package]bool // packages whose init has run on this path
	sizes              types.Sizes
	runtimeErrorString types.Type
	errorStringPtr     types.Type // *errors.errorString
	cfg                *Config
	extCache           map[*ssa.Function]externalFn
	extMiss            map[*ssa.Function]bool

	// per path
	path    *pathState
	solver  *Solver
	ex      *explorer
	threads []*thread
	cur     *thread
	dead    bool
	sync    map[*value]*syncState
	steps   int64
	natives *nativeState
	trace   bool

	pendingAbort *pathAbort
	panicOrigin  *panicInfo
	fnInfos      map[*ssa.Function]*fnInfo
	funcs        map[*ssa.Function]bool
	nativeCalls  map[string]int64
	initPkgs     []*ssa.Package
	assertsSymbolic int64
	pathStart    int64
	memo         map[string]string
}

type deferred struct {
	fn    value
	args  []value
	instr *ssa.Defer
	tail  *deferred
}

type frame struct {
	i                *interpreter
	caller           *frame
	fn               *ssa.Function
	block, prevBlock *ssa.BasicBlock
	env              []value // dynamic values of SSA variables, indexed by info.idx
	info             *fnInfo
	locals           []value
	defers           *deferred
	result           value
	panicking        bool
	panic            interface{}
	phitemps         []value // temporaries for parallel phi assignment
	symIf            map[ssa.Instruction]int
	callpos          token.Pos
}

func mustDeref(t types.Type) types.Type {
	if p, ok := t.Underlying().(*types.Pointer); ok {
		return p.Elem()
	}
	panic(fmt.Sprintf("mustDeref: not a pointer: %s", t))
}

func (fr *frame) get(key ssa.Value) value {
	switch key := key.(type) {
	case nil:
		// Hack; simplifies handling of optional attributes
		// such as ssa.Slice.{Low,High}.
		return nil
	case *ssa.Function, *ssa.Builtin:
		return key
	case *ssa.Const:
		return constValue(key)
	case *ssa.Global:
		if r, ok := fr.i.globals[key]; ok {
			if !fr.i.initialised[key.Pkg] {
				panic(engineError{"read of global " + key.String() + " of a package whose initialiser is not executed (unmodelled library state)"})
			}
			return r
		}
		panic(engineError{"read of global " + key.String() + " of a package whose initialiser is not executed (unmodelled library state)"})
	}
	if k, ok := fr.info.idx[key]; ok {
		return fr.env[k]
	}
	panic(fmt.Sprintf("get: no value for %T: %v", key, key.Name()))
}

// runDefer runs a deferred call d.
// It always returns normally, but may set or clear fr.panic.
func (fr *frame) runDefer(d *deferred) {
	var ok bool
	defer func() {
		if !ok {
			// Deferred call created a new state of panic.
			p := recover()
			if isEngineAbort(p) {
				panic(p)
			}
			fr.panicking = true
			fr.panic = p
		}
	}()
	call(fr.i, fr, d.instr.Pos(), d.fn, d.args)
	ok = true
}

// runDefers executes fr's deferred function calls in LIFO order.
func (fr *frame) runDefers() {
	for d := fr.defers; d != nil; d = d.tail {
		fr.runDefer(d)
	}
	fr.defers = nil
	if fr.panicking {
		panic(fr.panic) // new panic, or still panicking
	}
}

// lookupMethod returns the method set for type typ.
func lookupMethod(i *interpreter, typ types.Type, meth *types.Func) *ssa.Function {
	return i.prog.LookupMethod(typ, meth.Pkg(), meth.Name())
}

func (fr *frame) pos(instr ssa.Instruction) string {
	p := instr.Pos()
	if p == token.NoPos {
		return fr.fn.String()
	}
	pp := fr.i.prog.Fset.Position(p)
	return fmt.Sprintf("%s:%d", shortFile(pp.Filename), pp.Line)
}

func shortFile(f string) string {
	if k := strings.Index(f, "/repo/"); k >= 0 {
		return f[k+6:]
	}
	if k := strings.LastIndex(f, "/src/"); k >= 0 {
		return f[k+5:]
	}
	return f
}

// visitInstr interprets a single ssa.Instruction within the activation
// record frame.  It returns a continuation value indicating where to
// read the next instruction from.
func visitInstr(fr *frame, instr ssa.Instruction) continuation {
	i := fr.i
	switch instr := instr.(type) {
	case *ssa.DebugRef:
		// no-op

	case *ssa.UnOp:
		fr.set(instr, unop(fr, instr, fr.get(instr.X)))

	case *ssa.BinOp:
		x, y := fr.get(instr.X), fr.get(instr.Y)
		if instr.Op == token.QUO || instr.Op == token.REM {
			if _, _, isInt := intInfo(instr.X.Type()); isInt {
				if sy, ok := y.(sym); ok {
					if i.forkBool(tEq(sy.t, mkBV(0, sy.t.S.W)), fr.pos(instr)) {
						panic(targetRuntimeError("integer divide by zero"))
					}
				} else if isSym(x) && asInt64(y) == 0 {
					panic(targetRuntimeError("integer divide by zero"))
				} else if sx, ok := x.(sym); ok {
					// division by a constant: defined by multiplication (x = c*q + r),
					// which bit-blasts far cheaper than a divider circuit
					if c := asInt64(y); c >= 2 || c <= -2 {
						_, signed, _ := intInfo(instr.X.Type())
						q, r := i.divByConst(sx.t, c, signed)
						if instr.Op == token.QUO {
							fr.set(instr, valueOfTerm(q, instr.X.Type()))
						} else {
							fr.set(instr, valueOfTerm(r, instr.X.Type()))
						}
						break
					}
				}
			}
		}
		fr.set(instr, binop(instr.Op, instr.X.Type(), instr.Y.Type(), x, y))

	case *ssa.Call:
		fn, args := prepareCall(fr, &instr.Call)
		fr.set(instr, call(fr.i, fr, instr.Pos(), fn, args))

	case *ssa.ChangeInterface:
		fr.set(instr, fr.get(instr.X))

	case *ssa.ChangeType:
		fr.set(instr, fr.get(instr.X)) // (can't fail)

	case *ssa.Convert:
		x := fr.get(instr.X)
		if _, isSlice := x.([]value); isSlice && hasSym(x, 0) {
			// []byte/[]rune with symbolic elements converted to a string: concretise
			x = i.concretizeDeep(x, instr.X.Type(), fr.pos(instr))
		}
		fr.set(instr, conv(instr.Type(), instr.X.Type(), x))

	case *ssa.SliceToArrayPointer:
		fr.set(instr, sliceToArrayPointer(instr.Type(), instr.X.Type(), fr.get(instr.X)))

	case *ssa.MakeInterface:
		fr.set(instr, iface{t: instr.X.Type(), v: fr.get(instr.X)})

	case *ssa.Extract:
		fr.set(instr, fr.get(instr.Tuple).(tuple)[instr.Index])

	case *ssa.Slice:
		fr.set(instr, i.sliceOp(fr, instr))

	case *ssa.Return:
		switch len(instr.Results) {
		case 0:
		case 1:
			fr.result = fr.get(instr.Results[0])
		default:
			var res []value
			for _, r := range instr.Results {
				res = append(res, fr.get(r))
			}
			fr.result = tuple(res)
		}
		fr.block = nil
		return kReturn

	case *ssa.RunDefers:
		fr.runDefers()

	case *ssa.Panic:
		panic(targetPanic{fr.get(instr.X)})

	case *ssa.Send:
		i.chanSend(fr.get(instr.Chan).(*vchan), fr.get(instr.X))

	case *ssa.Store:
		store(mustDeref(instr.Addr.Type()), fr.get(instr.Addr).(*value), fr.get(instr.Val))

	case *ssa.If:
		succ := 1
		c := fr.get(instr.Cond)
		var take bool
		if sc, ok := c.(sym); ok {
			if fr.symIf == nil {
				fr.symIf = map[ssa.Instruction]int{}
			}
			fr.symIf[instr]++
			if fr.symIf[instr] > i.cfg.Unwind {
				i.path.unwindHits++
				panic(pathAbort{kind: abortUnwind, msg: "unwind limit reached at " + fr.pos(instr)})
			}
			take = i.forkBool(sc.t, fr.pos(instr))
		} else {
			take = c.(bool)
		}
		if take {
			succ = 0
		}
		fr.prevBlock, fr.block = fr.block, fr.block.Succs[succ]
		return kJump

	case *ssa.Jump:
		fr.prevBlock, fr.block = fr.block, fr.block.Succs[0]
		return kJump

	case *ssa.Defer:
		fn, args := prepareCall(fr, &instr.Call)
		defers := &fr.defers
		if into := fr.get(instr.DeferStack); into != nil {
			defers = into.(**deferred)
		}
		*defers = &deferred{
			fn:    fn,
			args:  args,
			instr: instr,
			tail:  *defers,
		}

	case *ssa.Go:
		fn, args := prepareCall(fr, &instr.Call)
		i.spawn(fn, args, instr.Pos())

	case *ssa.MakeChan:
		fr.set(instr, &vchan{cap: int(i.concretizeInt(fr.get(instr.Size), 0, 1<<20, fr.pos(instr)))})

	case *ssa.Alloc:
		var addr *value
		if instr.Heap {
			// new
			addr = new(value)
			fr.set(instr, addr)
		} else {
			// local
			addr = fr.env[fr.info.idx[instr]].(*value)
		}
		*addr = zero(mustDeref(instr.Type()))

	case *ssa.MakeSlice:
		ln := i.concretizeInt(fr.get(instr.Len), 0, 1<<24, fr.pos(instr))
		cp := i.concretizeInt(fr.get(instr.Cap), 0, 1<<24, fr.pos(instr))
		if ln < 0 || cp < ln {
			panic(targetRuntimeError("makeslice: len out of range"))
		}
		slice := make([]value, cp)
		tElt := instr.Type().Underlying().(*types.Slice).Elem()
		fillZero(slice, tElt)
		fr.set(instr, slice[:ln])

	case *ssa.MakeMap:
		fr.set(instr, makeMap(instr.Type().Underlying().(*types.Map).Key(), 0))

	case *ssa.Range:
		fr.set(instr, rangeIter(i, fr.get(instr.X), instr.X.Type()))

	case *ssa.Next:
		fr.set(instr, fr.get(instr.Iter).(iter).next())

	case *ssa.FieldAddr:
		p := fr.get(instr.X).(*value)
		if p == nil {
			panic(targetRuntimeError("invalid memory address or nil pointer dereference"))
		}
		fr.set(instr, &(*p).(structure)[instr.Field])

	case *ssa.Field:
		fr.set(instr, fr.get(instr.X).(structure)[instr.Field])

	case *ssa.IndexAddr:
		x := fr.get(instr.X)
		idx := fr.get(instr.Index)
		switch x := x.(type) {
		case []value:
			k := i.indexCheck(idx, len(x), fr.pos(instr))
			fr.set(instr, &x[k])
		case *value: // *array
			if x == nil {
				panic(targetRuntimeError("invalid memory address or nil pointer dereference"))
			}
			a := (*x).(array)
			k := i.indexCheck(idx, len(a), fr.pos(instr))
			fr.set(instr, &a[k])
		default:
			panic(fmt.Sprintf("unexpected x type in IndexAddr: %T", x))
		}

	case *ssa.Index:
		x := fr.get(instr.X)
		idx := fr.get(instr.Index)

		switch x := x.(type) {
		case array:
			fr.set(instr, x[i.indexCheck(idx, len(x), fr.pos(instr))])
		case string:
			fr.set(instr, x[i.indexCheck(idx, len(x), fr.pos(instr))])
		default:
			panic(fmt.Sprintf("unexpected x type in Index: %T", x))
		}

	case *ssa.Lookup:
		x := fr.get(instr.X)
		if s, ok := x.(string); ok {
			fr.set(instr, s[i.indexCheck(fr.get(instr.Index), len(s), fr.pos(instr))])
		} else {
			fr.set(instr, lookup(instr, x, i.concretizeKey(fr.get(instr.Index))))
		}

	case *ssa.MapUpdate:
		m := fr.get(instr.Map)
		key := i.concretizeKey(fr.get(instr.Key))
		v := fr.get(instr.Value)
		switch m := m.(type) {
		case *omap:
			m.insert(key, v)
		default:
			panic(fmt.Sprintf("illegal map type: %T", m))
		}

	case *ssa.TypeAssert:
		fr.set(instr, typeAssert(fr.i, instr, fr.get(instr.X).(iface)))

	case *ssa.MakeClosure:
		var bindings []value
		for _, binding := range instr.Bindings {
			bindings = append(bindings, fr.get(binding))
		}
		fr.set(instr, &closure{instr.Fn.(*ssa.Function), bindings})

	case *ssa.Phi:
		panic("unreachable") // phis are processed at block entry

	case *ssa.Select:
		fr.set(instr, i.selectOp(fr, instr))

	default:
		panic(engineError{fmt.Sprintf("unexpected instruction: %T", instr)})
	}

	return kNext
}

func fillZero(s []value, t types.Type) {
	switch t.Underlying().(type) {
	case *types.Struct, *types.Array:
		for k := range s {
			s[k] = zero(t)
		}
	default:
		if len(s) > 0 {
			z := zero(t)
			for k := range s {
				s[k] = z
			}
		}
	}
}

// prepareCall determines the function value and argument values for a
// function call in a Call, Go or Defer instruction, performing
// interface method lookup if needed.
func prepareCall(fr *frame, call *ssa.CallCommon) (fn value, args []value) {
	v := fr.get(call.Value)
	if call.Method == nil {
		// Function call.
		fn = v
	} else {
		// Interface method invocation.
		recv := v.(iface)
		if recv.t == nil {
			panic(targetRuntimeError("invalid memory address or nil pointer dereference (method " + call.Method.Name() + " invoked on nil interface)"))
		}
		if no, ok := recv.v.(*nativeObj); ok {
			fn = &nativeMethod{obj: no, name: call.Method.Name(), sig: call.Method.Type().(*types.Signature)}
		} else if f := lookupMethod(fr.i, recv.t, call.Method); f == nil {
			// Unreachable in well-typed programs.
			panic(fmt.Sprintf("method set for dynamic type %v does not contain %s", recv.t, call.Method))
		} else {
			fn = f
			args = append(args, recv.v)
		}
	}
	for _, arg := range call.Args {
		args = append(args, fr.get(arg))
	}
	return
}

// call interprets a call to a function (function, builtin or closure)
// fn with arguments args, returning its result.
// callpos is the position of the callsite.
func call(i *interpreter, caller *frame, callpos token.Pos, fn value, args []value) value {
	switch fn := fn.(type) {
	case *ssa.Function:
		if fn == nil {
			panic(targetRuntimeError("invalid memory address or nil pointer dereference (call of nil function)"))
		}
		return callSSA(i, caller, callpos, fn, args, nil)
	case *closure:
		return callSSA(i, caller, callpos, fn.Fn, args, fn.Env)
	case *ssa.Builtin:
		return callBuiltin(caller, callpos, fn, args)
	case *nativeMethod:
		return callNativeMethod(i, caller, fn, args)
	}
	panic(fmt.Sprintf("cannot call %T", fn))
}

// callSSA interprets a call to function fn with arguments args,
// and lexical environment env, returning its result.
// callpos is the position of the callsite.
func callSSA(i *interpreter, caller *frame, callpos token.Pos, fn *ssa.Function, args []value, env []value) value {
	fr := &frame{
		i:       i,
		caller:  caller, // for panic/recover
		fn:      fn,
		callpos: callpos,
	}
	if fn.Parent() == nil {
		if ext := i.external(fn); ext != nil {
			return ext(fr, args)
		}
		if fn.Synthetic == "package initializer" {
			if !i.cfg.initAllowed(fn.Pkg.Pkg.Path()) {
				return nil
			}
			i.initialised[fn.Pkg] = true
		}
		if fn.Blocks == nil {
			panic(engineError{"no code for function: " + fn.String()})
		}
	}
	if fn.Pkg != nil {
		if reason := i.cfg.forbidden(fn.Pkg.Pkg.Path()); reason != "" && !allowedLibFuncs[fn.String()] {
			panic(engineError{"call into unmodelled library function " + fn.String() + " (" + reason + ")"})
		}
	}
	i.noteFunc(fn)
	if i.trace {
		fmt.Fprintf(os.Stderr, "%*sEntering %s\n", depth(caller), "", fn)
	}

	// generic function body?
	if fn.TypeParams().Len() > 0 && len(fn.TypeArgs()) == 0 {
		panic(engineError{"uninstantiated generic function " + fn.String()})
	}

	fr.info = i.fnInfoOf(fn)
	fr.env = make([]value, fr.info.n)
	fr.block = fn.Blocks[0]
	fr.locals = make([]value, len(fn.Locals))
	for i, l := range fn.Locals {
		fr.locals[i] = zero(mustDeref(l.Type()))
		fr.set(l, &fr.locals[i])
	}
	for i, p := range fn.Params {
		fr.set(p, args[i])
	}
	for i, fv := range fn.FreeVars {
		fr.set(fv, env[i])
	}
	for fr.block != nil {
		runFrame(fr)
	}
	return fr.result
}

// allowedLibFuncs are trivial accessors of otherwise unmodelled libraries that are
// interpreted from their own SSA (field get/set, no other callee).
var allowedLibFuncs = map[string]bool{
	"(*github.com/spf13/cobra.Command).Context":    true,
	"(*github.com/spf13/cobra.Command).SetContext": true,
}

type panicInfo struct {
	p     interface{}
	stack string
}

// stack renders the interpreted call stack.
func (fr *frame) stack() string {
	var sb strings.Builder
	n := 0
	for f := fr; f != nil && n < 12; f = f.caller {
		if f.caller != nil && f.callpos != token.NoPos {
			pp := fr.i.prog.Fset.Position(f.callpos)
			fmt.Fprintf(&sb, " <- %s (called at %s:%d)", f.fn.Name(), shortFile(pp.Filename), pp.Line)
		} else {
			fmt.Fprintf(&sb, " <- %s", f.fn.Name())
		}
		n++
	}
	return sb.String()
}

// fnInfo numbers the SSA values of a function (slots of the frame environment).
type fnInfo struct {
	idx map[ssa.Value]int
	n   int
}

func (fr *frame) set(k ssa.Value, v value) { fr.env[fr.info.idx[k]] = v }

func (i *interpreter) fnInfoOf(fn *ssa.Function) *fnInfo {
	if fi, ok := i.fnInfos[fn]; ok {
		return fi
	}
	fi := &fnInfo{idx: map[ssa.Value]int{}}
	add := func(v ssa.Value) {
		fi.idx[v] = fi.n
		fi.n++
	}
	for _, p := range fn.Params {
		add(p)
	}
	for _, p := range fn.FreeVars {
		add(p)
	}
	for _, l := range fn.Locals {
		add(l)
	}
	for _, b := range fn.Blocks {
		for _, in := range b.Instrs {
			if v, ok := in.(ssa.Value); ok {
				if _, dup := fi.idx[v]; !dup {
					add(v)
				}
			}
		}
	}
	i.fnInfos[fn] = fi
	return fi
}

func depth(fr *frame) int {
	n := 0
	for ; fr != nil; fr = fr.caller {
		n++
	}
	return n
}

// runFrame executes SSA instructions starting at fr.block and
// continuing until a return, a panic, or a recovered panic.
func runFrame(fr *frame) {
	defer func() {
		if fr.block == nil {
			return // normal return
		}
		p := recover()
		if isEngineAbort(p) {
			panic(p)
		}
		if re, ok := p.(runtime.Error); ok {
			if _, isTarget := p.(targetRuntimeError); !isTarget {
				// A Go run-time error inside the interpreter itself.  Bounds and nil
				// errors mirror the target's own error; anything else is an engine bug.
				msg := re.Error()
				if !(strings.Contains(msg, "index out of range") || strings.Contains(msg, "slice bounds out of range") ||
					strings.Contains(msg, "nil pointer dereference") || strings.Contains(msg, "divide by zero") ||
					strings.Contains(msg, "nil map")) {
					buf := make([]byte, 1<<14)
					buf = buf[:runtime.Stack(buf, false)]
					panic(engineError{"interpreter fault in " + fr.fn.String() + ": " + msg + "\n" + string(buf)})
				}
				if os.Getenv("GOSYM_DEBUG") != "" {
					buf := make([]byte, 1<<14)
					buf = buf[:runtime.Stack(buf, false)]
					fmt.Fprintf(os.Stderr, "runtime error in %s: %s\n%s\n", fr.fn, msg, buf)
				}
			}
		} else if s, ok := p.(string); ok {
			// interp-internal panic(string) = engine bug / unsupported
			panic(engineError{"interpreter: " + s + " in " + fr.fn.String()})
		}
		if fr.i.panicOrigin == nil {
			fr.i.panicOrigin = &panicInfo{stack: fr.stack()}
		}
		fr.panicking = true
		fr.panic = p
		fr.runDefers()
		fr.block = fr.fn.Recover
	}()

	for {
		nonPhis := executePhis(fr)
		for _, instr := range nonPhis {
			fr.i.steps++
			if fr.i.steps&0xfff == 0 && fr.i.steps-fr.i.pathStart > fr.i.cfg.MaxSteps {
				panic(pathAbort{kind: abortBudget, msg: "instruction budget exhausted in" + fr.stack()})
			}
			if fr.i.trace {
				if v, ok := instr.(ssa.Value); ok {
					fmt.Fprintln(os.Stderr, "\t", v.Name(), "=", instr)
				} else {
					fmt.Fprintln(os.Stderr, "\t", instr)
				}
			}
			if visitInstr(fr, instr) == kReturn {
				return
			}
			// Inv: kNext (continue) or kJump (last instr)
		}
	}
}

// executePhis executes the phi-nodes at the start of the current
// block and returns the non-phi instructions.
func executePhis(fr *frame) []ssa.Instruction {
	firstNonPhi := -1
	for i, instr := range fr.block.Instrs {
		if _, ok := instr.(*ssa.Phi); !ok {
			firstNonPhi = i
			break
		}
	}
	// Inv: 0 <= firstNonPhi; every block contains a non-phi.

	nonPhis := fr.block.Instrs[firstNonPhi:]
	if firstNonPhi > 0 {
		phis := fr.block.Instrs[:firstNonPhi]
		predIndex := slices.Index(fr.block.Preds, fr.prevBlock)
		fr.phitemps = fr.phitemps[:0]
		for _, phi := range phis {
			phi := phi.(*ssa.Phi)
			fr.phitemps = append(fr.phitemps, fr.get(phi.Edges[predIndex]))
		}
		for i, phi := range phis {
			fr.set(phi.(*ssa.Phi), fr.phitemps[i])
		}
	}
	return nonPhis
}

// doRecover implements the recover() built-in.
func doRecover(caller *frame) value {
	// recover() must be exactly one level beneath the deferred
	// function (two levels beneath the panicking function) to
	// have any effect.  Thus we ignore both "defer recover()" and
	// "defer f() -> g() -> recover()".
	if caller != nil && !caller.panicking &&
		caller.caller != nil && caller.caller.panicking {
		caller.caller.panicking = false
		p := caller.caller.panic
		caller.caller.panic = nil
		caller.i.panicOrigin = nil

		switch p := p.(type) {
		case targetPanic:
			// The target program explicitly called panic().
			return p.v
		case runtime.Error:
			// The interpreter encountered a runtime error.
			return iface{caller.i.runtimeErrorString, p.Error()}
		case string:
			// The interpreter explicitly called panic().
			return iface{caller.i.runtimeErrorString, p}
		default:
			panic(fmt.Sprintf("unexpected panic type %T in target call to recover()", p))
		}
	}
	return iface{}
}

// sliceOp implements x[lo:hi:max] with possibly symbolic bounds.
func (i *interpreter) sliceOp(fr *frame, instr *ssa.Slice) value {
	x := fr.get(instr.X)
	lo, hi, max := fr.get(instr.Low), fr.get(instr.High), fr.get(instr.Max)
	var Len, Cap int
	switch x := x.(type) {
	case string:
		Len = len(x)
		Cap = Len
	case []value:
		Len = len(x)
		Cap = cap(x)
	case *value: // *array
		if x == nil {
			panic(targetRuntimeError("invalid memory address or nil pointer dereference"))
		}
		a := (*x).(array)
		Len = len(a)
		Cap = cap(a)
	}
	if isSym(lo) || isSym(hi) || isSym(max) {
		// out-of-range side first (one path, values stay symbolic), then concretise
		m := int64(Cap)
		var bad *Term = mkBool(false)
		lt := mkBV(0, 64)
		if lo != nil {
			lt = termOf(lo)
		}
		var mt *Term
		if max != nil {
			mt = termOf(max)
			bad = tOr(bad, tOr(bvCmp("bvslt", mt, mkBV(0, 64)), bvCmp("bvslt", mkBV(uint64(m), 64), mt)))
		} else {
			mt = mkBV(uint64(m), 64)
		}
		var ht *Term
		if hi != nil {
			ht = termOf(hi)
		} else {
			ht = mkBV(uint64(Len), 64)
		}
		// 0 <= lo <= hi <= max
		bad = tOr(bad, bvCmp("bvslt", lt, mkBV(0, 64)))
		bad = tOr(bad, bvCmp("bvslt", ht, lt))
		bad = tOr(bad, bvCmp("bvslt", mt, ht))
		if i.forkBool(bad, fr.pos(instr)+" slice bounds") {
			panic(targetRuntimeError("slice bounds out of range"))
		}
		if lo != nil {
			lo = i.concretizeInt(lo, 0, m, fr.pos(instr))
		}
		if hi != nil {
			hi = i.concretizeInt(hi, 0, m, fr.pos(instr))
		}
		if max != nil {
			max = i.concretizeInt(max, 0, m, fr.pos(instr))
		}
	}
	l := int64(0)
	if lo != nil {
		l = asInt64(lo)
	}
	h := int64(Len)
	if hi != nil {
		h = asInt64(hi)
	}
	m := int64(Cap)
	if max != nil {
		m = asInt64(max)
	}
	if l < 0 || h < l || m < h || m > int64(Cap) {
		panic(targetRuntimeError(fmt.Sprintf("slice bounds out of range [%d:%d:%d] with capacity %d", l, h, m, Cap)))
	}
	switch x := x.(type) {
	case string:
		return x[l:h]
	case []value:
		return x[l:h:m]
	case *value: // *array
		a := (*x).(array)
		return []value(a)[l:h:m]
	}
	panic(fmt.Sprintf("slice: unexpected X type: %T", x))
}

// indexCheck returns a concrete in-range index for idx, forking a panic path when
// idx can be out of range.
func (i *interpreter) indexCheck(idx value, n int, where string) int {
	if s, ok := idx.(sym); ok {
		w := s.t.S.W
		t := s.t
		if w < 64 {
			t = bvResize(t, 64, true)
		}
		oob := tOr(bvCmp("bvslt", t, mkBV(0, 64)), bvCmp("bvsle", mkBV(uint64(n), 64), t))
		if i.forkBool(oob, where+" index") {
			panic(targetRuntimeError(fmt.Sprintf("index out of range [symbolic] with length %d", n)))
		}
		return int(i.concretizeInt(sym{t}, 0, int64(n-1), where))
	}
	k := asInt64(idx)
	if k < 0 || k >= int64(n) {
		panic(targetRuntimeError(fmt.Sprintf("index out of range [%d] with length %d", k, n)))
	}
	return int(k)
}
