package interp

// Intercepted functions: the harness API (vh), modelled concurrency primitives, the
// modelled time.Time arithmetic, logging stubs and native call-outs.

import (
	"bytes"
	"crypto"
	_ "crypto/sha256"
	_ "crypto/sha512"
	"encoding/json"
	"fmt"
	"go/token"
	"go/types"
	"hash"
	"net/textproto"
	"net/url"
	"path"
	"path/filepath"
	"reflect"
	"regexp"
	"sort"
	"strconv"
	"strings"

	"golang.org/x/tools/go/ssa"
)

type externalFn func(fr *frame, args []value) value

const vhPkg = "github.com/olareg/olareg/internal/verifenv/vh."

type nativeState struct {
	markers map[string]*Term
}

func newNativeState() *nativeState { return &nativeState{markers: map[string]*Term{}} }

// simple pure functions called through reflection on concrete arguments
var reflectNatives = map[string]interface{}{
	"strings.Split":       strings.Split,
	"strings.SplitN":      strings.SplitN,
	"strings.Join":        strings.Join,
	"strings.Trim":        strings.Trim,
	"strings.TrimSpace":   strings.TrimSpace,
	"strings.TrimPrefix":  strings.TrimPrefix,
	"strings.TrimSuffix":  strings.TrimSuffix,
	"strings.TrimLeft":    strings.TrimLeft,
	"strings.TrimRight":   strings.TrimRight,
	"strings.ToLower":     strings.ToLower,
	"strings.ToUpper":     strings.ToUpper,
	"strings.Clone":       strings.Clone,
	"internal/stringslite.Clone": func(s string) string { return strings.Clone(s) },
	"strings.Cut":         strings.Cut,
	"strings.HasPrefix":   strings.HasPrefix,
	"strings.HasSuffix":   strings.HasSuffix,
	"strings.Index":       strings.Index,
	"strings.IndexByte":   strings.IndexByte,
	"strings.IndexAny":    strings.IndexAny,
	"strings.LastIndex":   strings.LastIndex,
	"strings.LastIndexByte": strings.LastIndexByte,
	"strings.Compare":     strings.Compare,
	"strings.Contains":    strings.Contains,
	"strings.ContainsAny": strings.ContainsAny,
	"strings.ContainsRune": strings.ContainsRune,
	"strings.Count":       strings.Count,
	"strings.Replace":     strings.Replace,
	"strings.ReplaceAll":  strings.ReplaceAll,
	"strings.EqualFold":   strings.EqualFold,
	"strings.Fields":      strings.Fields,
	"strings.Repeat":      strings.Repeat,
	"strconv.Itoa":        strconv.Itoa,
	"strconv.FormatInt":   strconv.FormatInt,
	"strconv.FormatUint":  strconv.FormatUint,
	"strconv.Quote":       strconv.Quote,
	"strconv.ParseBool":   strconv.ParseBool,
	"path.Clean":          path.Clean,
	"path.Join":           path.Join,
	"path.Base":           path.Base,
	"path.Dir":            path.Dir,
	"path/filepath.Join":  filepath.Join,
	"path/filepath.Clean": filepath.Clean,
	"path/filepath.Base":  filepath.Base,
	"path/filepath.Dir":   filepath.Dir,
	"net/url.JoinPath":    url.JoinPath,
	"net/url.QueryEscape": url.QueryEscape,
	"net/url.QueryUnescape": url.QueryUnescape,
	"net/url.PathEscape":  url.PathEscape,
	"net/url.ParseQuery":  url.ParseQuery,
	"(net/url.Values).Encode": url.Values.Encode,
	"(*net/url.URL).String":   (*url.URL).String,
	"(*net/url.URL).Query":    (*url.URL).Query,
	"(*net/url.URL).JoinPath": (*url.URL).JoinPath,
	"(*net/url.URL).EscapedPath": (*url.URL).EscapedPath,
	"net/textproto.CanonicalMIMEHeaderKey": textproto.CanonicalMIMEHeaderKey,
	"net/http.CanonicalHeaderKey":          textproto.CanonicalMIMEHeaderKey,
}

var externals = map[string]externalFn{}

func init() {
	for name, fn := range reflectNatives {
		externals[name] = makeReflectNative(name, fn)
	}
	for k, v := range map[string]externalFn{
		// ---- harness API ----
		vhPkg + "Int":       extVhInt,
		vhPkg + "Int64":     extVhInt,
		vhPkg + "Bool":      extVhBool,
		vhPkg + "Choice":    extVhChoice,
		vhPkg + "IntMarker": extVhIntMarker,
		vhPkg + "Assume":    func(fr *frame, a []value) value { fr.i.assume(a[0]); return nil },
		vhPkg + "Assert":    func(fr *frame, a []value) value { fr.i.assert(a[0], a[1].(string)); return nil },
		vhPkg + "Cover":     func(fr *frame, a []value) value { fr.i.path.covers[a[0].(string)]++; return nil },
		vhPkg + "Tag": func(fr *frame, a []value) value {
			if a[1].(string) == "" {
				delete(fr.i.path.tags, a[0].(string))
			} else {
				fr.i.path.tags[a[0].(string)] = a[1].(string)
			}
			return nil
		},
		vhPkg + "Note":      func(fr *frame, a []value) value { fr.i.path.notes = append(fr.i.path.notes, a[0].(string)); return nil },
		vhPkg + "Symbolic":  func(fr *frame, a []value) value { return true },
		vhPkg + "And":       extVhAnd,
		vhPkg + "Or":        extVhOr,
		vhPkg + "Not":       func(fr *frame, a []value) value { return notValue(a[0]) },
		vhPkg + "Implies":   func(fr *frame, a []value) value { return orValues(notValue(a[0]), a[1]) },
		vhPkg + "IteInt":    extVhIteInt,
		vhPkg + "Sched":     func(fr *frame, a []value) value { fr.i.drainThreads(); return nil },
		vhPkg + "Preempt":   func(fr *frame, a []value) value { fr.i.path.preemptBound = int(asInt64(a[0])); return nil },
		vhPkg + "MapOrder":  extVhMapOrder,
		vhPkg + "LocksHeld": func(fr *frame, a []value) value {
			c := 0
			for _, s := range fr.i.sync {
				if s.locked {
					c++
				}
			}
			return c
		},

		vhPkg + "Concrete":  extVhConcrete,
		vhPkg + "ConcreteBool": func(fr *frame, a []value) value {
			if s, ok := a[0].(sym); ok {
				return fr.i.forkBool(s.t, "vh.ConcreteBool")
			}
			return a[0]
		},
		vhPkg + "Stop": func(fr *frame, a []value) value { panic(pathAbort{kind: abortEnd}) },
		vhPkg + "Memo": func(fr *frame, a []value) value {
			key := a[0].(string)
			if v, ok := fr.i.memo[key]; ok {
				return v
			}
			nv := len(fr.i.path.vars)
			r := call(fr.i, fr, 0, a[1], nil)
			s, ok := r.(string)
			if !ok || len(fr.i.path.vars) != nv {
				panic(engineError{"vh.Memo: the memoised prefix is not concrete (" + key + ")"})
			}
			fr.i.memo[key] = s
			return s
		},
		vhPkg + "Param": func(fr *frame, a []value) value {
			if v, ok := fr.i.cfg.Params[a[0].(string)]; ok {
				return v
			}
			return a[1]
		},

		// ---- sync ----
		"(*sync.Mutex).Lock":     func(fr *frame, a []value) value { fr.i.mutexLock(a[0].(*value)); return nil },
		"(*sync.Mutex).Unlock":   func(fr *frame, a []value) value { fr.i.mutexUnlock(a[0].(*value)); return nil },
		"(*sync.RWMutex).Lock":   func(fr *frame, a []value) value { fr.i.mutexLock(a[0].(*value)); return nil },
		"(*sync.RWMutex).Unlock": func(fr *frame, a []value) value { fr.i.mutexUnlock(a[0].(*value)); return nil },
		"(*sync.RWMutex).RLock":  func(fr *frame, a []value) value { fr.i.mutexLock(a[0].(*value)); return nil },
		"(*sync.RWMutex).RUnlock": func(fr *frame, a []value) value { fr.i.mutexUnlock(a[0].(*value)); return nil },
		"(*sync.WaitGroup).Add":  func(fr *frame, a []value) value { fr.i.wgAdd(a[0].(*value), asInt64(a[1])); return nil },
		"(*sync.WaitGroup).Done": func(fr *frame, a []value) value { fr.i.wgAdd(a[0].(*value), -1); return nil },
		"(*sync.WaitGroup).Wait": func(fr *frame, a []value) value { fr.i.wgWait(a[0].(*value)); return nil },
		"(*sync.Once).Do": func(fr *frame, a []value) value {
			s := fr.i.syncOf(a[0].(*value))
			if !s.done {
				s.done = true
				call(fr.i, fr, 0, a[1], nil)
			}
			return nil
		},

		// ---- time.Time modelled as 64-bit nanoseconds in field ext (index 1) ----
		"(time.Time).Before": func(fr *frame, a []value) value {
			return binop(tokLSS, tInt64, tInt64, timeNs(a[0]), timeNs(a[1]))
		},
		"(time.Time).After": func(fr *frame, a []value) value {
			return binop(tokGTR, tInt64, tInt64, timeNs(a[0]), timeNs(a[1]))
		},
		"(time.Time).Equal": func(fr *frame, a []value) value {
			return binop(tokEQL, tInt64, tInt64, timeNs(a[0]), timeNs(a[1]))
		},
		"(time.Time).Compare": func(fr *frame, a []value) value {
			x, y := timeNs(a[0]), timeNs(a[1])
			if isSym(x) || isSym(y) {
				lt := fr.i.concretizeValue(binop(tokLSS, tInt64, tInt64, x, y), tBoolType, "Time.Compare").(bool)
				if lt {
					return -1
				}
				gt := fr.i.concretizeValue(binop(tokGTR, tInt64, tInt64, x, y), tBoolType, "Time.Compare").(bool)
				if gt {
					return 1
				}
				return 0
			}
			switch {
			case x.(int64) < y.(int64):
				return -1
			case x.(int64) > y.(int64):
				return 1
			}
			return 0
		},
		"(time.Time).IsZero": func(fr *frame, a []value) value {
			return binop(tokEQL, tInt64, tInt64, timeNs(a[0]), int64(0))
		},
		"(time.Time).Add": func(fr *frame, a []value) value {
			t := a[0].(structure)
			out := structure{t[0], binop(tokADD, tInt64, tInt64, timeNs(a[0]), a[1]), t[2]}
			return out
		},
		"(time.Time).Sub": func(fr *frame, a []value) value {
			return binop(tokSUB, tInt64, tInt64, timeNs(a[0]), timeNs(a[1]))
		},
		"(time.Time).UnixNano": func(fr *frame, a []value) value { return timeNs(a[0]) },
		"(time.Duration).String": func(fr *frame, a []value) value {
			if isSym(a[0]) {
				return "<symbolic duration>"
			}
			return fmt.Sprintf("%dns", asInt64(a[0]))
		},

		// ---- strconv with symbolic markers ----
		"strconv.Atoi":     extAtoi,
		"strconv.ParseInt": extParseInt,
		"strconv.ParseUint": extParseUint,

		// ---- errors / fmt ----
		"errors.Is":    extErrorsIs,
		"fmt.Errorf":   extFmtErrorf,
		"fmt.Sprintf":  extFmtSprintf,
		"fmt.Sprint":   extFmtSprint,
		"fmt.Sprintln": extFmtSprint,
		"fmt.Fprintf":  extFmtFprintf,
		"fmt.Println":  func(fr *frame, a []value) value { return tuple{0, iface{}} },
		"fmt.Printf":   func(fr *frame, a []value) value { return tuple{0, iface{}} },

		"(runtime.errorString).Error": func(fr *frame, a []value) value { return a[0] },
		"(*runtime.TypeAssertionError).Error": func(fr *frame, a []value) value { return "interface conversion error" },

		// ---- sort ----
		"sort.Strings": func(fr *frame, a []value) value {
			x := a[0].([]value)
			sort.Slice(x, func(i, j int) bool { return x[i].(string) < x[j].(string) })
			return nil
		},

		// ---- regexp ----
		"regexp.MustCompile": func(fr *frame, a []value) value {
			re := regexp.MustCompile(a[0].(string))
			fr.i.ex.noteRegexp(a[0].(string))
			cell := value(&nativeObj{v: re, kind: "regexp"})
			return &cell
		},
		"(*regexp.Regexp).MatchString": func(fr *frame, a []value) value {
			re := (*a[0].(*value)).(*nativeObj).v.(*regexp.Regexp)
			return re.MatchString(a[1].(string))
		},
		"(*regexp.Regexp).String": func(fr *frame, a []value) value {
			re := (*a[0].(*value)).(*nativeObj).v.(*regexp.Regexp)
			return re.String()
		},

		// ---- crypto hashes (go-digest) ----
		"(crypto.Hash).Available": func(fr *frame, a []value) value { return crypto.Hash(asInt64(a[0])).Available() },
		"(crypto.Hash).Size":      func(fr *frame, a []value) value { return crypto.Hash(asInt64(a[0])).Size() },
		"(crypto.Hash).New": func(fr *frame, a []value) value {
			h := crypto.Hash(asInt64(a[0])).New()
			return iface{t: nativeHashType, v: &nativeObj{v: h, kind: "hash"}}
		},

		// ---- encoding/json on mirror types ----
		"encoding/json.Marshal":                extJSONMarshal,
		"encoding/json.MarshalIndent":          extJSONMarshalIndent,
		"encoding/json.Unmarshal":              extJSONUnmarshal,
		"encoding/json.NewEncoder":             extJSONNewEncoder,
		"encoding/json.NewDecoder":             extJSONNewDecoder,
		"(*encoding/json.Encoder).Encode":      extJSONEncode,
		"(*encoding/json.Encoder).SetEscapeHTML": func(fr *frame, a []value) value {
			(*a[0].(*value)).(*nativeObj).v.(*jsonCoder).escapeHTML = a[1].(bool)
			return nil
		},
		"(*encoding/json.Encoder).SetIndent": func(fr *frame, a []value) value {
			c := (*a[0].(*value)).(*nativeObj).v.(*jsonCoder)
			c.prefix, c.indent = a[1].(string), a[2].(string)
			c.useIndent = true
			return nil
		},
		"(*encoding/json.Decoder).Decode": extJSONDecode,
		"encoding/json.Valid": func(fr *frame, a []value) value { return json.Valid(bytesOf(a[0])) },

		// ---- logging: formatting is never the subject ----
		// debugging aid of cmd/olareg (SIGUSR1 stack dump): a goroutine parked forever on a
		// real signal channel; not part of any property
		"github.com/olareg/olareg/internal/godbg.SignalTrace": func(fr *frame, a []value) value { return nil },
		"log/slog.New":     func(fr *frame, a []value) value { return (*value)(nil) },
		"log/slog.Default": func(fr *frame, a []value) value { return (*value)(nil) },
	} {
		externals[k] = v
	}
}

var (
	tInt64         = types.Typ[types.Int64]
	nativeHashType = types.NewNamed(types.NewTypeName(0, nil, "nativeHash", nil), types.NewStruct(nil, nil), nil)
)

func timeNs(t value) value { return t.(structure)[1] }

func orValues(a, b value) value {
	return notValue(andValues(notValue(a), notValue(b)))
}

// external returns the interceptor for fn, if any.
func (i *interpreter) external(fn *ssa.Function) externalFn {
	if e, ok := i.extCache[fn]; ok {
		return e
	}
	if i.extMiss[fn] {
		return nil
	}
	name := fn.String()
	if fn.Origin() != nil {
		name = fn.Origin().String()
	}
	e := externals[name]
	if e == nil {
		switch {
		case strings.HasPrefix(name, "(*log/slog.Logger)."):
			e = func(fr *frame, a []value) value {
				if fn.Signature.Results().Len() == 0 {
					return nil
				}
				return zero(fn.Signature.Results())
			}
		case strings.HasPrefix(name, "(*strings.Builder)."):
			e = builderMethod(fn.Name())
		}
	}
	if e == nil {
		i.extMiss[fn] = true
		return nil
	}
	wrapped := func(fr *frame, a []value) value {
		i.noteNative(name)
		return e(fr, a)
	}
	i.extCache[fn] = wrapped
	return wrapped
}

func (ex *explorer) noteRegexp(p string) {}

// makeReflectNative wraps a host function.
func makeReflectNative(name string, fn interface{}) externalFn {
	rf := reflect.ValueOf(fn)
	rt := rf.Type()
	return func(fr *frame, args []value) value {
		i := fr.i
		sig := fr.fn.Signature
		in := make([]reflect.Value, len(args))
		k0 := 0
		if sig.Recv() != nil {
			in[0] = i.toNative(i.concretizeDeep(args[0], sig.Recv().Type(), name), rt.In(0))
			k0 = 1
		}
		for k := k0; k < len(args); k++ {
			in[k] = i.toNative(i.concretizeDeep(args[k], sig.Params().At(k-k0).Type(), name), rt.In(k))
		}
		var out []reflect.Value
		if rt.IsVariadic() {
			out = rf.CallSlice(in)
		} else {
			out = rf.Call(in)
		}
		res := sig.Results()
		switch res.Len() {
		case 0:
			return nil
		case 1:
			return i.fromNative(out[0], res.At(0).Type())
		}
		tup := make(tuple, res.Len())
		for k := range tup {
			tup[k] = i.fromNative(out[k], res.At(k).Type())
		}
		return tup
	}
}

// ---- vh ----

func (i *interpreter) recordInput(name, kind string, v *Term, conc int64) {
	i.path.inputs = append(i.path.inputs, inputRec{Name: name, Kind: kind, v: v, conc: conc})
}

func extVhInt(fr *frame, a []value) value {
	name := a[0].(string)
	v := fr.i.newVar(name, bvSort(64))
	fr.i.recordInput(name, "int", v, 0)
	return sym{v}
}

func extVhBool(fr *frame, a []value) value {
	name := a[0].(string)
	v := fr.i.newVar(name, boolSort)
	fr.i.recordInput(name, "bool", v, 0)
	fr.i.path.domains[v.Name] = &domain{v: v, vals: []uint64{0, 1}}
	return sym{v}
}

func extVhChoice(fr *frame, a []value) value {
	name := a[0].(string)
	n := asInt64(a[1])
	if n <= 0 {
		panic(pathAbort{kind: abortInfeasible})
	}
	if n == 1 {
		fr.i.recordInput(name, "int", nil, 0)
		return int(0)
	}
	v := fr.i.newVar(name, bvSort(64))
	fr.i.recordInput(name, "int", v, 0)
	fr.i.addPC(tAnd(bvCmp("bvsle", mkBV(0, 64), v), bvCmp("bvslt", v, mkBV(uint64(n), 64))))
	if n <= 256 {
		d := &domain{v: v}
		for k := int64(0); k < n; k++ {
			d.vals = append(d.vals, uint64(k))
		}
		fr.i.path.domains[v.Name] = d
	}
	return sym{v}
}

const markerPrefix = "VHSYM"

func extVhIntMarker(fr *frame, a []value) value {
	name := a[0].(string)
	v := fr.i.newVar(name, bvSort(64))
	fr.i.recordInput(name, "marker", v, 0)
	m := fmt.Sprintf("%s%dX", markerPrefix, len(fr.i.natives.markers))
	fr.i.natives.markers[m] = v
	return m
}

func extVhAnd(fr *frame, a []value) value {
	var acc value = true
	for _, x := range a[0].([]value) {
		acc = andValues(acc, x)
	}
	return acc
}

func extVhOr(fr *frame, a []value) value {
	var acc value = false
	for _, x := range a[0].([]value) {
		acc = orValues(acc, x)
	}
	return acc
}

func extVhIteInt(fr *frame, a []value) value {
	if b, ok := a[0].(bool); ok {
		if b {
			return a[1]
		}
		return a[2]
	}
	return sym{tIte(termOf(a[0]), termOf(a[1]), termOf(a[2]))}
}

func extVhMapOrder(fr *frame, a []value) value {
	if a[0].(bool) {
		fr.i.path.tags["__maporder"] = "on"
	} else {
		delete(fr.i.path.tags, "__maporder")
	}
	return nil
}

func extVhConcrete(fr *frame, a []value) value {
	if s, ok := a[0].(sym); ok {
		return int(fr.i.concretizeInt(s, 0, 0, "vh.Concrete"))
	}
	return a[0]
}

// ---- strconv ----

// extParseUint: a marker denotes the decimal numeral of a signed 64-bit value v; parsed as
// unsigned it is a syntax error for v < 0 (a fork) and v otherwise.
func extParseUint(fr *frame, a []value) value {
	s := a[0].(string)
	base, bits := int(asInt64(a[1])), int(asInt64(a[2]))
	if v, ok := fr.i.natives.markers[s]; ok && (base == 10 || base == 0) && (bits == 64 || bits == 0) {
		neg := fr.i.concretizeValue(binop(tokLSS, tInt64, tInt64, sym{v}, int64(0)), tBoolType, "ParseUint sign").(bool)
		if neg {
			return tuple{uint64(0), fr.i.makeError("strconv.ParseUint: parsing " + strconv.Quote(s) + ": invalid syntax")}
		}
		return tuple{symConv(types.Typ[types.Uint64], tInt64, sym{v}), iface{}}
	}
	if strings.Contains(s, markerPrefix) {
		panic(engineError{"marker string was altered before reaching strconv.ParseUint: " + s})
	}
	n, err := strconv.ParseUint(s, base, bits)
	if err != nil {
		return tuple{n, fr.i.makeError(err.Error())}
	}
	return tuple{n, iface{}}
}

func extAtoi(fr *frame, a []value) value {
	s := a[0].(string)
	if v, ok := fr.i.natives.markers[s]; ok {
		return tuple{sym{v}, iface{}}
	}
	if strings.Contains(s, markerPrefix) {
		panic(engineError{"marker string was altered before reaching strconv.Atoi: " + s})
	}
	n, err := strconv.Atoi(s)
	if err != nil {
		return tuple{n, fr.i.makeError(err.Error())}
	}
	return tuple{n, iface{}}
}

func extParseInt(fr *frame, a []value) value {
	s := a[0].(string)
	base, bits := int(asInt64(a[1])), int(asInt64(a[2]))
	if v, ok := fr.i.natives.markers[s]; ok && (base == 10 || base == 0) && (bits == 64 || bits == 0) {
		return tuple{sym{v}, iface{}}
	}
	if strings.Contains(s, markerPrefix) {
		panic(engineError{"marker string was altered before reaching strconv.ParseInt: " + s})
	}
	n, err := strconv.ParseInt(s, base, bits)
	if err != nil {
		return tuple{n, fr.i.makeError(err.Error())}
	}
	return tuple{n, iface{}}
}

// ---- errors / fmt ----

func extErrorsIs(fr *frame, a []value) value {
	err, target := a[0].(iface), a[1].(iface)
	if err.t == nil || target.t == nil {
		return err.t == nil && target.t == nil
	}
	is := fr.i.prog.ImportedPackage("errors").Func("is")
	return call(fr.i, fr, 0, is, []value{err, target, true})
}

// formatArgs converts the variadic []interface{} for host formatting.
func (i *interpreter) formatArgs(v value) []interface{} {
	sv := v.([]value)
	out := make([]interface{}, len(sv))
	for k, e := range sv {
		out[k] = i.nativeAny(e)
	}
	return out
}

// wrapVerbs returns the argument indexes of %w verbs and the format with %w -> %v.
func wrapVerbs(format string) ([]int, string) {
	var idx []int
	var sb strings.Builder
	arg := 0
	for k := 0; k < len(format); k++ {
		c := format[k]
		sb.WriteByte(c)
		if c != '%' {
			continue
		}
		k++
		for k < len(format) && strings.IndexByte("+-# 0123456789.", format[k]) >= 0 {
			sb.WriteByte(format[k])
			k++
		}
		if k >= len(format) {
			break
		}
		switch format[k] {
		case '%':
			sb.WriteByte('%')
		case 'w':
			idx = append(idx, arg)
			sb.WriteByte('v')
			arg++
		case '*':
			sb.WriteByte('*')
			arg++
		default:
			sb.WriteByte(format[k])
			arg++
		}
	}
	return idx, sb.String()
}

func extFmtErrorf(fr *frame, a []value) value {
	i := fr.i
	format := a[0].(string)
	args := a[1].([]value)
	widx, f2 := wrapVerbs(format)
	msg := fmt.Sprintf(f2, i.formatArgs(a[1])...)
	var wrapped []value
	for _, k := range widx {
		if k < len(args) {
			if e, ok := args[k].(iface); ok && e.t != nil {
				wrapped = append(wrapped, e)
			}
		}
	}
	fmtPkg := i.prog.ImportedPackage("fmt")
	switch {
	case len(wrapped) == 0 || fmtPkg == nil:
		return i.makeError(msg)
	case len(wrapped) == 1 && len(widx) == 1:
		t := types.NewPointer(fmtPkg.Type("wrapError").Object().Type())
		cell := value(structure{msg, wrapped[0]})
		return iface{t: t, v: &cell}
	default:
		t := types.NewPointer(fmtPkg.Type("wrapErrors").Object().Type())
		cell := value(structure{msg, []value(wrapped)})
		return iface{t: t, v: &cell}
	}
}

func extFmtSprintf(fr *frame, a []value) value {
	return fmt.Sprintf(a[0].(string), fr.i.formatArgs(fr.i.concretizeFormatArgs(a[1], "fmt.Sprintf"))...)
}

func extFmtSprint(fr *frame, a []value) value {
	return fmt.Sprint(fr.i.formatArgs(a[0])...)
}

func extFmtFprintf(fr *frame, a []value) value {
	s := fmt.Sprintf(a[1].(string), fr.i.formatArgs(fr.i.concretizeFormatArgs(a[2], "fmt.Fprintf"))...)
	return fr.i.writeTo(fr, a[0].(iface), []byte(s))
}

// concretizeFormatArgs: a symbolic integer formatted into a string becomes concrete
// (fork over its feasible values; more than MaxConc feasible values = the text is
// irrelevant for branching in olareg, e.g. an error detail: a model value is used and
// the loss is recorded in the evidence).
func (i *interpreter) concretizeFormatArgs(v value, where string) value {
	sv := v.([]value)
	if !hasSym(v, 0) {
		return v
	}
	out := make([]value, len(sv))
	for k, e := range sv {
		if iv, ok := e.(iface); ok && isSym(iv.v) {
			out[k] = iface{t: iv.t, v: i.concretizeOrSample(iv.v, iv.t, where)}
		} else {
			out[k] = e
		}
	}
	return out
}

// concretizeOrSample concretises when few values are feasible; otherwise takes one
// model value WITHOUT constraining the path (used only for message text).
func (i *interpreter) concretizeOrSample(v value, t types.Type, where string) value {
	s := v.(sym)
	if s.t.S.K != sBV {
		return i.concretizeValue(v, t, where)
	}
	if i.path.pos < len(i.path.prefix) {
		// replaying: the recorded decision tells which way it went
		d := i.path.prefix[i.path.pos]
		if d.K == dSample {
			i.path.pos++
			i.path.trace = append(i.path.trace, d)
			return i.sampleValue(s, t, where)
		}
		return i.concretizeValue(v, t, where)
	}
	// count feasible values up to a small bound
	probe := i.newVar("fmt", s.t.S)
	i.addPC(tEq(probe, s.t))
	var block []*Term
	n := 0
	for n <= 4 {
		res, model := i.solver.Check(block, []*Term{probe})
		if res != resSat {
			break
		}
		block = append(block, tNot(tEq(probe, mkBV(model[probe.Name], s.t.S.W))))
		n++
	}
	if n <= 4 {
		return i.concretizeValue(v, t, where)
	}
	i.path.trace = append(i.path.trace, decision{K: dSample})
	return i.sampleValue(s, t, where)
}

func (i *interpreter) sampleValue(s sym, t types.Type, where string) value {
	i.path.concLoss = append(i.path.concLoss, where)
	return valueOfTerm(mkBV(0, s.t.S.W), t) // text placeholder; value not constrained
}

// writeTo calls w.Write(b) inside the interpreter.
func (i *interpreter) writeTo(fr *frame, w iface, b []byte) value {
	if w.t == nil {
		panic(targetRuntimeError("invalid memory address or nil pointer dereference (nil io.Writer)"))
	}
	if no, ok := w.v.(*nativeObj); ok {
		if hw, ok := no.v.(hash.Hash); ok {
			n, _ := hw.Write(b)
			return tuple{n, iface{}}
		}
	}
	ms := i.prog.MethodSets.MethodSet(w.t)
	sel := ms.Lookup(nil, "Write")
	if sel == nil {
		panic(engineError{"writeTo: no Write method on " + w.t.String()})
	}
	return call(i, fr, 0, i.prog.MethodValue(sel), []value{w.v, valueOfBytes(b)})
}

// readAll drains r by calling r.Read inside the interpreter.
func (i *interpreter) readAll(fr *frame, r iface) ([]byte, value) {
	if r.t == nil {
		panic(targetRuntimeError("invalid memory address or nil pointer dereference (nil io.Reader)"))
	}
	ms := i.prog.MethodSets.MethodSet(r.t)
	sel := ms.Lookup(nil, "Read")
	if sel == nil {
		panic(engineError{"readAll: no Read method on " + r.t.String()})
	}
	fn := i.prog.MethodValue(sel)
	var out []byte
	for rounds := 0; rounds < 1<<16; rounds++ {
		buf := make([]value, 512)
		for k := range buf {
			buf[k] = uint8(0)
		}
		res := call(i, fr, 0, fn, []value{r.v, buf}).(tuple)
		n := int(i.concretizeInt(res[0], 0, 512, "Read result"))
		out = append(out, bytesOf(buf[:n])...)
		if e := res[1].(iface); e.t != nil {
			if i.errorText(e) == "EOF" {
				return out, iface{}
			}
			return out, e
		}
		if n == 0 && rounds > 64 {
			break
		}
	}
	return out, iface{}
}

// ---- strings.Builder (uses unsafe; modelled on its buf field) ----

func builderMethod(name string) externalFn {
	bufOf := func(a []value) *value {
		p := a[0].(*value)
		return &(*p).(structure)[1]
	}
	switch name {
	case "WriteString":
		return func(fr *frame, a []value) value {
			b := bufOf(a)
			s := a[1].(string)
			*b = append((*b).([]value), valueOfBytes([]byte(s)).([]value)...)
			return tuple{len(s), iface{}}
		}
	case "Write":
		return func(fr *frame, a []value) value {
			b := bufOf(a)
			*b = append((*b).([]value), a[1].([]value)...)
			return tuple{len(a[1].([]value)), iface{}}
		}
	case "WriteByte":
		return func(fr *frame, a []value) value {
			b := bufOf(a)
			*b = append((*b).([]value), a[1])
			return iface{}
		}
	case "WriteRune":
		return func(fr *frame, a []value) value {
			b := bufOf(a)
			s := string(rune(asInt64(a[1])))
			*b = append((*b).([]value), valueOfBytes([]byte(s)).([]value)...)
			return tuple{len(s), iface{}}
		}
	case "String":
		return func(fr *frame, a []value) value { return string(bytesOf(*bufOf(a))) }
	case "Len":
		return func(fr *frame, a []value) value { return len((*bufOf(a)).([]value)) }
	case "Grow":
		return func(fr *frame, a []value) value { return nil }
	case "Reset":
		return func(fr *frame, a []value) value { *bufOf(a) = []value(nil); return nil }
	}
	return nil
}

// ---- native objects behind interfaces (hash.Hash) ----

type nativeMethod struct {
	obj  *nativeObj
	name string
	sig  *types.Signature
}

func callNativeMethod(i *interpreter, caller *frame, m *nativeMethod, args []value) value {
	switch h := m.obj.v.(type) {
	case hash.Hash:
		switch m.name {
		case "Write":
			n, _ := h.Write(bytesOf(args[0]))
			return tuple{n, iface{}}
		case "Sum":
			return valueOfBytes(h.Sum(bytesOf(args[0])))
		case "Reset":
			h.Reset()
			return nil
		case "Size":
			return h.Size()
		case "BlockSize":
			return h.BlockSize()
		}
	}
	panic(engineError{fmt.Sprintf("native method %s on %T not modelled", m.name, m.obj.v)})
}

func checkNativeInterface(itype *types.Interface, o *nativeObj) string {
	rt := reflect.TypeOf(o.v)
	for k := 0; k < itype.NumMethods(); k++ {
		if _, ok := rt.MethodByName(itype.Method(k).Name()); !ok {
			return fmt.Sprintf("interface conversion: %s is not %s: missing method %s", rt, itype, itype.Method(k).Name())
		}
	}
	// only Write/Sum/Reset/Size/BlockSize are modelled on hashes: refuse wider interfaces
	for k := 0; k < itype.NumMethods(); k++ {
		switch itype.Method(k).Name() {
		case "Write", "Sum", "Reset", "Size", "BlockSize":
		default:
			return "native object does not offer " + itype.Method(k).Name()
		}
	}
	return ""
}

// ---- encoding/json ----

type jsonCoder struct {
	rw         iface
	escapeHTML bool
	useIndent  bool
	prefix     string
	indent     string
	buffered   []byte // decoder read-ahead
	eof        bool
}

func (i *interpreter) jsonNative(v iface, where string) (reflect.Value, bool) {
	if v.t == nil {
		return reflect.Value{}, false
	}
	cv := i.concretizeDeep(v.v, v.t, where)
	rt := i.mirrorType(v.t, 0)
	return i.toNative(cv, rt), true
}

func extJSONMarshal(fr *frame, a []value) value {
	i := fr.i
	nv, ok := i.jsonNative(a[0].(iface), "json.Marshal")
	var b []byte
	var err error
	if !ok {
		b, err = json.Marshal(nil)
	} else {
		b, err = json.Marshal(nv.Interface())
	}
	if err != nil {
		return tuple{[]value(nil), i.makeError(err.Error())}
	}
	return tuple{valueOfBytes(b), iface{}}
}

func extJSONMarshalIndent(fr *frame, a []value) value {
	i := fr.i
	nv, ok := i.jsonNative(a[0].(iface), "json.MarshalIndent")
	var b []byte
	var err error
	if !ok {
		b, err = json.MarshalIndent(nil, a[1].(string), a[2].(string))
	} else {
		b, err = json.MarshalIndent(nv.Interface(), a[1].(string), a[2].(string))
	}
	if err != nil {
		return tuple{[]value(nil), i.makeError(err.Error())}
	}
	return tuple{valueOfBytes(b), iface{}}
}

// unmarshalInto decodes with dec into the interpreter object behind ptr.
func (i *interpreter) unmarshalInto(ptr iface, decode func(target interface{}) error) value {
	if ptr.t == nil {
		return i.makeError("json: Unmarshal(nil)")
	}
	pt, ok := ptr.t.Underlying().(*types.Pointer)
	if !ok {
		return i.makeError("json: Unmarshal(non-pointer " + ptr.t.String() + ")")
	}
	p := ptr.v.(*value)
	if p == nil {
		return i.makeError("json: Unmarshal(nil " + ptr.t.String() + ")")
	}
	elemT := pt.Elem()
	rt := i.mirrorType(elemT, 0)
	cur := load(elemT, p)
	cur = i.concretizeDeep(cur, elemT, "json.Unmarshal target")
	target := reflect.New(rt)
	target.Elem().Set(i.toNative(cur, rt))
	err := decode(target.Interface())
	// json leaves partial results in place even on error
	nv := i.fromNative(target.Elem(), elemT)
	nv = mergeUnexported(elemT, cur, nv)
	store(elemT, p, nv)
	if err != nil {
		return i.makeError(err.Error())
	}
	return iface{}
}

// mergeUnexported keeps the unexported fields of old (json never touches them).
func mergeUnexported(t types.Type, old, nv value) value {
	st, ok := t.Underlying().(*types.Struct)
	if !ok {
		return nv
	}
	o, n := old.(structure), nv.(structure)
	for f := 0; f < st.NumFields(); f++ {
		if !st.Field(f).Exported() {
			n[f] = o[f]
		}
	}
	return n
}

func extJSONUnmarshal(fr *frame, a []value) value {
	data := bytesOf(a[0])
	return fr.i.unmarshalInto(a[1].(iface), func(t interface{}) error { return json.Unmarshal(data, t) })
}

func extJSONNewEncoder(fr *frame, a []value) value {
	cell := value(&nativeObj{v: &jsonCoder{rw: a[0].(iface), escapeHTML: true}, kind: "json.Encoder"})
	return &cell
}

func extJSONNewDecoder(fr *frame, a []value) value {
	cell := value(&nativeObj{v: &jsonCoder{rw: a[0].(iface)}, kind: "json.Decoder"})
	return &cell
}

func extJSONEncode(fr *frame, a []value) value {
	i := fr.i
	c := (*a[0].(*value)).(*nativeObj).v.(*jsonCoder)
	var buf bytes.Buffer
	enc := json.NewEncoder(&buf)
	enc.SetEscapeHTML(c.escapeHTML)
	if c.useIndent {
		enc.SetIndent(c.prefix, c.indent)
	}
	nv, ok := i.jsonNative(a[1].(iface), "json.Encode")
	var err error
	if !ok {
		err = enc.Encode(nil)
	} else {
		err = enc.Encode(nv.Interface())
	}
	if err != nil {
		return i.makeError(err.Error())
	}
	res := i.writeTo(fr, c.rw, buf.Bytes()).(tuple)
	return res[1]
}

func extJSONDecode(fr *frame, a []value) value {
	i := fr.i
	c := (*a[0].(*value)).(*nativeObj).v.(*jsonCoder)
	if !c.eof {
		b, rerr := i.readAll(fr, c.rw)
		c.buffered = append(c.buffered, b...)
		c.eof = true
		if e, ok := rerr.(iface); ok && e.t != nil {
			return e
		}
	}
	rd := bytes.NewReader(c.buffered)
	dec := json.NewDecoder(rd)
	res := i.unmarshalInto(a[1].(iface), func(t interface{}) error { return dec.Decode(t) })
	// keep what the decoder has not consumed for a following Decode
	rest := c.buffered[len(c.buffered)-rd.Len():]
	if br, ok := dec.Buffered().(*bytes.Reader); ok {
		tail := make([]byte, br.Len())
		br.Read(tail)
		rest = append(tail, rest...)
	}
	c.buffered = rest
	if e, ok := res.(iface); ok && e.t != nil && i.errorText(e) == "EOF" {
		// surface io.EOF as the interpreter's own io.EOF value
		if ioPkg := i.prog.ImportedPackage("io"); ioPkg != nil {
			if g, ok := i.globals[ioPkg.Var("EOF")]; ok {
				return *g
			}
		}
	}
	return res
}

// goAppend implements append with the growth rule of the Go runtime (nextslicecap +
// size-class rounding), so that aliasing between the old and the new slice is the
// same as in the compiled program.
func goAppend(i *interpreter, s, add []value, elemT types.Type) []value {
	if len(add) == 0 {
		return s
	}
	newLen := len(s) + len(add)
	if newLen <= cap(s) {
		return append(s, add...)
	}
	elemSize := int64(8)
	if elemT != nil && i != nil && i.sizes != nil {
		func() {
			defer func() { recover() }()
			elemSize = i.sizes.Sizeof(elemT)
		}()
	}
	newCap := nextSliceCap(newLen, cap(s), elemSize)
	ns := make([]value, newLen, newCap)
	copy(ns, s)
	copy(ns[len(s):], add)
	// spare capacity holds zero values
	if elemT != nil && newCap > newLen {
		fillZero(ns[newLen:newCap], elemT)
	}
	return ns
}

func nextSliceCap(newLen, oldCap int, elemSize int64) int {
	newcap := oldCap
	doublecap := newcap + newcap
	if newLen > doublecap {
		newcap = newLen
	} else {
		const threshold = 256
		if oldCap < threshold {
			newcap = doublecap
		} else {
			for 0 < newcap && newcap < newLen {
				newcap += (newcap + 3*threshold) >> 2
			}
			if newcap <= 0 {
				newcap = newLen
			}
		}
	}
	if elemSize <= 0 {
		return newcap
	}
	mem := roundUpSize(int64(newcap) * elemSize)
	return int(mem / elemSize)
}

// size classes of the Go runtime (runtime/sizeclasses.go)
var sizeClasses = []int64{0, 8, 16, 24, 32, 48, 64, 80, 96, 112, 128, 144, 160, 176, 192, 208, 224, 240, 256, 288, 320, 352, 384, 416, 448, 480, 512, 576, 640, 704, 768, 896, 1024, 1152, 1280, 1408, 1536, 1792, 2048, 2304, 2688, 3072, 3200, 3456, 4096, 4864, 5376, 6144, 6528, 6784, 6912, 8192, 9472, 9728, 10240, 10880, 12288, 13568, 14336, 16384, 18432, 19072, 20480, 21760, 24576, 27264, 28672, 32768}

func roundUpSize(n int64) int64 {
	if n <= 32768 {
		for _, c := range sizeClasses {
			if c >= n {
				return c
			}
		}
	}
	const page = 8192
	return (n + page - 1) / page * page
}

const (
	tokLSS = token.LSS
	tokGTR = token.GTR
	tokEQL = token.EQL
	tokADD = token.ADD
	tokSUB = token.SUB
)

const vclockPkg = "github.com/olareg/olareg/internal/verifenv/vclock."

func init() {
	externals[vclockPkg+"mkTime"] = func(fr *frame, a []value) value {
		return structure{uint64(0), a[0], (*value)(nil)}
	}
	externals[vclockPkg+"Ns"] = func(fr *frame, a []value) value { return timeNs(a[0]) }
}
