package interp

// Symbolic terms: bit-vectors (Go integer semantics: wrap-around, signedness per
// operation), booleans and float64 (only for the int->float->int kernels olareg has).
// Terms print as SMT-LIB2.

import (
	"fmt"
	"math"
	"strings"
)

type sortKind uint8

const (
	sBool sortKind = iota
	sBV
	sFP64
)

type Sort struct {
	K sortKind
	W int // bit width for sBV
}

func (s Sort) String() string {
	switch s.K {
	case sBool:
		return "Bool"
	case sBV:
		return fmt.Sprintf("(_ BitVec %d)", s.W)
	default:
		return "(_ FloatingPoint 11 53)"
	}
}

var (
	boolSort = Sort{K: sBool}
	fpSort   = Sort{K: sFP64}
)

func bvSort(w int) Sort { return Sort{K: sBV, W: w} }

// Term is an immutable SMT term.
type Term struct {
	Op    string // "var", "const", or an SMT operator
	Args  []*Term
	S     Sort
	Val   uint64  // const bits (BV, truncated to width) or 0/1 for Bool
	F     float64 // const for FP
	Name  string  // var name
	Extra [2]int  // extract hi/lo, extend amount
	text  string
}

func mask(w int) uint64 {
	if w >= 64 {
		return ^uint64(0)
	}
	return (uint64(1) << uint(w)) - 1
}

func mkVar(name string, s Sort) *Term { return &Term{Op: "var", Name: name, S: s} }

func mkBV(v uint64, w int) *Term { return &Term{Op: "const", S: bvSort(w), Val: v & mask(w)} }

func mkBool(b bool) *Term {
	t := &Term{Op: "const", S: boolSort}
	if b {
		t.Val = 1
	}
	return t
}

func mkFP(f float64) *Term { return &Term{Op: "const", S: fpSort, F: f} }

func (t *Term) isConst() bool { return t.Op == "const" }

func (t *Term) isTrue() bool  { return t.Op == "const" && t.S.K == sBool && t.Val == 1 }
func (t *Term) isFalse() bool { return t.Op == "const" && t.S.K == sBool && t.Val == 0 }

// signed value of a BV const
func (t *Term) sval() int64 {
	w := t.S.W
	v := t.Val
	if w < 64 && v&(uint64(1)<<uint(w-1)) != 0 {
		v |= ^mask(w)
	}
	return int64(v)
}

func (t *Term) String() string {
	if t.text != "" {
		return t.text
	}
	var s string
	switch t.Op {
	case "var":
		s = t.Name
	case "const":
		switch t.S.K {
		case sBool:
			if t.Val == 1 {
				s = "true"
			} else {
				s = "false"
			}
		case sBV:
			if t.S.W%4 == 0 {
				s = fmt.Sprintf("#x%0*x", t.S.W/4, t.Val)
			} else {
				s = fmt.Sprintf("#b%0*b", t.S.W, t.Val)
			}
		case sFP64:
			s = fmt.Sprintf("((_ to_fp 11 53) #x%016x)", math.Float64bits(t.F))
		}
	case "extract":
		s = fmt.Sprintf("((_ extract %d %d) %s)", t.Extra[0], t.Extra[1], t.Args[0])
	case "zero_extend", "sign_extend":
		s = fmt.Sprintf("((_ %s %d) %s)", t.Op, t.Extra[0], t.Args[0])
	case "to_fp_s":
		s = fmt.Sprintf("((_ to_fp 11 53) RNE %s)", t.Args[0])
	case "to_fp_u":
		s = fmt.Sprintf("((_ to_fp_unsigned 11 53) RNE %s)", t.Args[0])
	case "fp.to_sbv":
		s = fmt.Sprintf("((_ fp.to_sbv %d) RTZ %s)", t.S.W, t.Args[0])
	case "fp.to_ubv":
		s = fmt.Sprintf("((_ fp.to_ubv %d) RTZ %s)", t.S.W, t.Args[0])
	case "fp.add", "fp.sub", "fp.mul", "fp.div":
		s = fmt.Sprintf("(%s RNE %s %s)", t.Op, t.Args[0], t.Args[1])
	default:
		var sb strings.Builder
		sb.WriteByte('(')
		sb.WriteString(t.Op)
		for _, a := range t.Args {
			sb.WriteByte(' ')
			sb.WriteString(a.String())
		}
		sb.WriteByte(')')
		s = sb.String()
	}
	t.text = s
	return s
}

// ---- boolean builders with light simplification ----

func tNot(a *Term) *Term {
	if a.isConst() {
		return mkBool(a.Val == 0)
	}
	if a.Op == "not" {
		return a.Args[0]
	}
	return &Term{Op: "not", Args: []*Term{a}, S: boolSort}
}

func tAnd(a, b *Term) *Term {
	if a.isFalse() || b.isFalse() {
		return mkBool(false)
	}
	if a.isTrue() {
		return b
	}
	if b.isTrue() {
		return a
	}
	return &Term{Op: "and", Args: []*Term{a, b}, S: boolSort}
}

func tOr(a, b *Term) *Term {
	if a.isTrue() || b.isTrue() {
		return mkBool(true)
	}
	if a.isFalse() {
		return b
	}
	if b.isFalse() {
		return a
	}
	return &Term{Op: "or", Args: []*Term{a, b}, S: boolSort}
}

func tIte(c, a, b *Term) *Term {
	if c.isTrue() {
		return a
	}
	if c.isFalse() {
		return b
	}
	return &Term{Op: "ite", Args: []*Term{c, a, b}, S: a.S}
}

func tEq(a, b *Term) *Term {
	if a == b && a.S.K != sFP64 {
		return mkBool(true)
	}
	if a.isConst() && b.isConst() {
		if a.S.K == sFP64 {
			return mkBool(a.F == b.F)
		}
		return mkBool(a.Val == b.Val)
	}
	if a.S.K == sFP64 {
		return &Term{Op: "fp.eq", Args: []*Term{a, b}, S: boolSort}
	}
	return &Term{Op: "=", Args: []*Term{a, b}, S: boolSort}
}

// ---- bit-vector builders ----

func bvBin(op string, a, b *Term) *Term {
	if a.S != b.S {
		panic(fmt.Sprintf("bvBin %s: sort mismatch %v %v", op, a.S, b.S))
	}
	w := a.S.W
	if a.isConst() && b.isConst() {
		x, y := a.Val, b.Val
		sx, sy := a.sval(), b.sval()
		switch op {
		case "bvadd":
			return mkBV(x+y, w)
		case "bvsub":
			return mkBV(x-y, w)
		case "bvmul":
			return mkBV(x*y, w)
		case "bvand":
			return mkBV(x&y, w)
		case "bvor":
			return mkBV(x|y, w)
		case "bvxor":
			return mkBV(x^y, w)
		case "bvudiv":
			if y != 0 {
				return mkBV(x/y, w)
			}
		case "bvurem":
			if y != 0 {
				return mkBV(x%y, w)
			}
		case "bvsdiv":
			if sy != 0 && !(sy == -1 && sx == math.MinInt64) {
				return mkBV(uint64(sx/sy), w)
			}
		case "bvsrem":
			if sy != 0 && sy != -1 {
				return mkBV(uint64(sx%sy), w)
			}
		case "bvshl":
			if y >= uint64(w) {
				return mkBV(0, w)
			}
			return mkBV(x<<y, w)
		case "bvlshr":
			if y >= uint64(w) {
				return mkBV(0, w)
			}
			return mkBV(x>>y, w)
		case "bvashr":
			if y >= uint64(w) {
				y = uint64(w - 1)
			}
			return mkBV(uint64(sx>>y), w)
		}
	}
	// x + 0, x - 0, x * 1
	if b.isConst() {
		switch {
		case (op == "bvadd" || op == "bvsub" || op == "bvor" || op == "bvxor" || op == "bvshl" || op == "bvlshr" || op == "bvashr") && b.Val == 0:
			return a
		case op == "bvmul" && b.Val == 1:
			return a
		case op == "bvmul" && b.Val == mask(w):
			return bvNeg(a)
		}
	}
	if a.isConst() {
		switch {
		case (op == "bvadd" || op == "bvor" || op == "bvxor") && a.Val == 0:
			return b
		case op == "bvmul" && a.Val == 1:
			return b
		case op == "bvmul" && a.Val == mask(w):
			return bvNeg(b)
		}
	}
	return &Term{Op: op, Args: []*Term{a, b}, S: a.S}
}

func bvNeg(a *Term) *Term {
	if a.isConst() {
		return mkBV(-a.Val, a.S.W)
	}
	return &Term{Op: "bvneg", Args: []*Term{a}, S: a.S}
}

func bvNot(a *Term) *Term {
	if a.isConst() {
		return mkBV(^a.Val, a.S.W)
	}
	return &Term{Op: "bvnot", Args: []*Term{a}, S: a.S}
}

func bvCmp(op string, a, b *Term) *Term {
	if a.S != b.S {
		panic(fmt.Sprintf("bvCmp %s: sort mismatch %v %v", op, a.S, b.S))
	}
	if a.isConst() && b.isConst() {
		switch op {
		case "bvult":
			return mkBool(a.Val < b.Val)
		case "bvule":
			return mkBool(a.Val <= b.Val)
		case "bvslt":
			return mkBool(a.sval() < b.sval())
		case "bvsle":
			return mkBool(a.sval() <= b.sval())
		}
	}
	return &Term{Op: op, Args: []*Term{a, b}, S: boolSort}
}

// bvResize converts a to width w (sign- or zero-extending, or truncating).
func bvResize(a *Term, w int, signed bool) *Term {
	aw := a.S.W
	if aw == w {
		return a
	}
	if a.isConst() {
		if signed {
			return mkBV(uint64(a.sval()), w)
		}
		return mkBV(a.Val, w)
	}
	if w < aw {
		return &Term{Op: "extract", Args: []*Term{a}, S: bvSort(w), Extra: [2]int{w - 1, 0}}
	}
	op := "zero_extend"
	if signed {
		op = "sign_extend"
	}
	return &Term{Op: op, Args: []*Term{a}, S: bvSort(w), Extra: [2]int{w - aw, 0}}
}

// ---- floating point ----

func fpFromBV(a *Term, signed bool) *Term {
	if a.isConst() {
		if signed {
			return mkFP(float64(a.sval()))
		}
		return mkFP(float64(a.Val))
	}
	op := "to_fp_u"
	if signed {
		op = "to_fp_s"
	}
	return &Term{Op: op, Args: []*Term{a}, S: fpSort}
}

func fpToBV(a *Term, w int, signed bool) *Term {
	if a.isConst() {
		if signed {
			return mkBV(uint64(int64(a.F)), w)
		}
		return mkBV(uint64(a.F), w)
	}
	op := "fp.to_ubv"
	if signed {
		op = "fp.to_sbv"
	}
	return &Term{Op: op, Args: []*Term{a}, S: bvSort(w)}
}

func fpBin(op string, a, b *Term) *Term {
	if a.isConst() && b.isConst() {
		switch op {
		case "fp.add":
			return mkFP(a.F + b.F)
		case "fp.sub":
			return mkFP(a.F - b.F)
		case "fp.mul":
			return mkFP(a.F * b.F)
		case "fp.div":
			return mkFP(a.F / b.F)
		}
	}
	return &Term{Op: op, Args: []*Term{a, b}, S: fpSort}
}

func fpCmp(op string, a, b *Term) *Term {
	if a.isConst() && b.isConst() {
		switch op {
		case "fp.lt":
			return mkBool(a.F < b.F)
		case "fp.leq":
			return mkBool(a.F <= b.F)
		case "fp.gt":
			return mkBool(a.F > b.F)
		case "fp.geq":
			return mkBool(a.F >= b.F)
		}
	}
	return &Term{Op: op, Args: []*Term{a, b}, S: boolSort}
}

// collectVars appends the distinct variables of t to out.
func collectVars(t *Term, seen map[string]bool, out *[]*Term) {
	if t.Op == "var" {
		if !seen[t.Name] {
			seen[t.Name] = true
			*out = append(*out, t)
		}
		return
	}
	for _, a := range t.Args {
		collectVars(a, seen, out)
	}
}

// substTerm replaces variables by constants and re-folds the term with the builders.
func substTerm(t *Term, env map[string]*Term) *Term {
	switch t.Op {
	case "var":
		if c, ok := env[t.Name]; ok {
			return c
		}
		return t
	case "const":
		return t
	}
	args := make([]*Term, len(t.Args))
	changed := false
	for k, a := range t.Args {
		args[k] = substTerm(a, env)
		if args[k] != a {
			changed = true
		}
	}
	if !changed {
		return t
	}
	switch t.Op {
	case "not":
		return tNot(args[0])
	case "and":
		return tAnd(args[0], args[1])
	case "or":
		return tOr(args[0], args[1])
	case "ite":
		return tIte(args[0], args[1], args[2])
	case "=", "fp.eq":
		return tEq(args[0], args[1])
	case "bvadd", "bvsub", "bvmul", "bvand", "bvor", "bvxor", "bvudiv", "bvurem", "bvsdiv", "bvsrem", "bvshl", "bvlshr", "bvashr":
		return bvBin(t.Op, args[0], args[1])
	case "bvneg":
		return bvNeg(args[0])
	case "bvnot":
		return bvNot(args[0])
	case "bvult", "bvule", "bvslt", "bvsle":
		return bvCmp(t.Op, args[0], args[1])
	case "extract":
		if args[0].isConst() {
			return mkBV(args[0].Val>>uint(t.Extra[1]), t.S.W)
		}
	case "zero_extend":
		return bvResize(args[0], t.S.W, false)
	case "sign_extend":
		return bvResize(args[0], t.S.W, true)
	case "to_fp_s":
		return fpFromBV(args[0], true)
	case "to_fp_u":
		return fpFromBV(args[0], false)
	case "fp.to_sbv":
		return fpToBV(args[0], t.S.W, true)
	case "fp.to_ubv":
		return fpToBV(args[0], t.S.W, false)
	case "fp.add", "fp.sub", "fp.mul", "fp.div":
		return fpBin(t.Op, args[0], args[1])
	case "fp.lt", "fp.leq", "fp.gt", "fp.geq":
		return fpCmp(t.Op, args[0], args[1])
	}
	return &Term{Op: t.Op, Args: args, S: t.S, Extra: t.Extra}
}

// singleVar returns the name of the only variable of t, or "" if there are none or several.
func singleVar(t *Term) string {
	name := ""
	multi := false
	var rec func(t *Term)
	rec = func(t *Term) {
		if multi {
			return
		}
		if t.Op == "var" {
			if name == "" {
				name = t.Name
			} else if name != t.Name {
				multi = true
			}
			return
		}
		for _, a := range t.Args {
			rec(a)
		}
	}
	rec(t)
	if multi {
		return ""
	}
	return name
}
