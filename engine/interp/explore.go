package interp

// Path exploration: forking by re-execution with a decision prefix.  Every symbolic
// branch, bounds check, concretisation, assumption and assertion is a solver query
// under the current path condition.

import (
	"fmt"
	"go/token"
	"go/types"
	"os"
	"sort"
	"strings"
	"sync"
	"sync/atomic"
	"time"

	"golang.org/x/tools/go/ssa"
)

// Config of one harness run.
type Config struct {
	Workers      int
	Solver       string // z3 | z3-new | cvc5
	TimeoutMs    int    // per query
	Unwind       int    // symbolic loop unwinding bound per (frame, branch)
	MaxSteps     int64  // instructions per path
	MaxConc      int    // feasible values enumerated when concretising
	MaxPaths     int64  // 0 = unlimited; exceeding = inconclusive
	Deadline     time.Time
	InitPrefixes []string // packages whose initialisers are executed
	Forbidden    map[string]string
	MapOrder     int // 0: insertion order only, 1: insertion+reverse, 2: all permutations (<=3 entries)
	StopAtFirst  bool
	QueryLog     string // directory for query logs (cross-check), "" = off
	Trace        bool
	MaxViolations int
	Params        map[string]int
	Pinned        []Decision // replay: follow exactly these decisions
}

func (c *Config) initAllowed(path string) bool {
	for _, p := range c.InitPrefixes {
		if path == p || strings.HasPrefix(path, p+"/") {
			return true
		}
	}
	return false
}

func (c *Config) forbidden(path string) string {
	if r, ok := c.Forbidden[path]; ok {
		return r
	}
	return ""
}

type decisionKind byte

const (
	dBranch decisionKind = iota // V: 0/1
	dConc                       // V: chosen value
	dChoice                     // V: chosen alternative (scheduler, select, map order)
	dSample                     // a symbolic value was only formatted into message text
)

type decision struct {
	K decisionKind
	V int64
}

type abortKind int

const (
	abortInfeasible abortKind = iota // assumption failed / no feasible side: path silently ends
	abortUnwind
	abortBudget
	abortEngine     // unsupported construct: inconclusive
	abortSolver     // unknown / error: inconclusive
	abortViolation  // stop after a violation
	abortDeadlock
	abortEnd
)

// pathAbort unwinds the interpreter stack of the current path.
type pathAbort struct {
	kind abortKind
	msg  string
}

type threadKill struct{}

func isEngineAbort(p interface{}) bool {
	switch p.(type) {
	case pathAbort, threadKill, engineError:
		return true
	}
	return false
}

type inputRec struct {
	Name string
	Kind string // int, bool, choice, marker
	v    *Term  // nil if concrete
	conc int64
}

// Violation found on a path.
type Violation struct {
	Harness  string
	AssertID string
	Msg      string
	Tags     map[string]string
	Inputs   []ReplayInput
	Trace    []string
	Panic    string
	Decisions []Decision
}

// Decision is the exported form of one recorded decision (schedule replay).
type Decision struct {
	K int   `json:"k"`
	V int64 `json:"v"`
}

type ReplayInput struct {
	Name  string `json:"name"`
	Kind  string `json:"kind"`
	Value string `json:"value"`
}

type pathState struct {
	prefix     []decision
	pos        int
	trace      []decision
	pc         []*Term
	vars       []*Term
	inputs     []inputRec
	markers    []*Term
	nvar       int
	covers     map[string]int
	asserts    map[string]int // assertion id -> times checked on this path
	tags       map[string]string
	notes      []string
	unwindHits int
	violations []Violation
	nontrivial bool
	switches   int
	preemptBound int
	concLoss   []string
	domains map[string]*domain // finite inputs constrained only by unary constraints
	divCache map[string][2]*Term
	lazyDefs map[string][]*Term // definitional constraints of fresh variables, asserted on first use
}

// Result of exploring one harness.
type Result struct {
	Harness       string
	Paths         int64
	PathsInfeasible int64
	Violations    []Violation
	Inconclusive  []string
	UnwindHits    int64
	Covers        map[string]int64
	Asserts       map[string]int64
	AssertsSymbolic int64
	NonTrivial    int64
	Solver        SolverStats
	Funcs         map[string]int // function -> number of SSA instructions
	LibFuncs      map[string]int
	NativeCalls   map[string]int64
	Samples       []PathSample
	Wall          time.Duration
	Steps         int64
	ConcLoss      map[string]int64
	Deadlocks     int64
	MaxDecisions  int
}

type PathSample struct {
	Decisions int               `json:"decisions"`
	Inputs    []ReplayInput     `json:"inputs"`
	Notes     []string          `json:"notes,omitempty"`
	Covers    []string          `json:"covers,omitempty"`
}

type explorer struct {
	prog    *ssa.Program
	cfg     *Config
	entry   *ssa.Function
	mu      sync.Mutex
	cond    *sync.Cond
	work    [][]decision
	active  int
	res     *Result
	stop    bool
	funcsMu sync.Mutex
	funcs   map[*ssa.Function]bool
	natives map[string]int64
	sizes   types.Sizes
	npaths  int64
}

func (i *interpreter) noteFunc(fn *ssa.Function) {
	i.funcs[fn] = true
}

func (i *interpreter) noteNative(name string) {
	i.nativeCalls[name]++
}

func (ex *explorer) push(p []decision) {
	ex.mu.Lock()
	ex.work = append(ex.work, p)
	ex.mu.Unlock()
	ex.cond.Signal()
}

// pop blocks until work is available or exploration is finished.
func (ex *explorer) pop() ([]decision, bool) {
	ex.mu.Lock()
	defer ex.mu.Unlock()
	for {
		if ex.stop {
			return nil, false
		}
		if n := len(ex.work); n > 0 {
			p := ex.work[n-1]
			ex.work = ex.work[:n-1]
			ex.active++
			return p, true
		}
		if ex.active == 0 {
			ex.cond.Broadcast()
			return nil, false
		}
		ex.cond.Wait()
	}
}

func (ex *explorer) done() {
	ex.mu.Lock()
	ex.active--
	if ex.active == 0 && len(ex.work) == 0 {
		ex.cond.Broadcast()
	}
	ex.mu.Unlock()
}

// Explore runs harness function entry to completion over all feasible paths.
func Explore(prog *ssa.Program, entry *ssa.Function, cfg *Config, sizes types.Sizes) *Result {
	start := time.Now()
	ex := &explorer{prog: prog, cfg: cfg, entry: entry, funcs: map[*ssa.Function]bool{}, natives: map[string]int64{}, sizes: sizes}
	ex.cond = sync.NewCond(&ex.mu)
	ex.res = &Result{Harness: entry.Name(), Covers: map[string]int64{}, Asserts: map[string]int64{}, ConcLoss: map[string]int64{}}
	ex.work = [][]decision{nil}
	if len(cfg.Pinned) > 0 {
		var pre []decision
		for _, d := range cfg.Pinned {
			pre = append(pre, decision{K: decisionKind(d.K), V: d.V})
		}
		ex.work = [][]decision{pre}
	}
	var wg sync.WaitGroup
	for w := 0; w < cfg.Workers; w++ {
		wg.Add(1)
		go func(w int) {
			defer wg.Done()
			ex.worker(w)
		}(w)
	}
	wg.Wait()
	res := ex.res
	res.Wall = time.Since(start)
	res.Funcs = map[string]int{}
	res.LibFuncs = map[string]int{}
	for fn := range ex.funcs {
		n := 0
		for _, b := range fn.Blocks {
			n += len(b.Instrs)
		}
		name := fn.String()
		if fn.Pkg != nil && strings.HasPrefix(fn.Pkg.Pkg.Path(), "github.com/olareg/olareg") && !strings.Contains(fn.Pkg.Pkg.Path(), "/verifenv/") && !strings.HasPrefix(fn.Name(), "VH_") && !strings.HasPrefix(fn.Name(), "vh") {
			res.Funcs[name] = n
		} else if fn.Pkg == nil && strings.Contains(name, "github.com/olareg/olareg") && !strings.Contains(name, "/verifenv/") {
			res.Funcs[name] = n
		} else {
			res.LibFuncs[name] = n
		}
	}
	res.NativeCalls = ex.natives
	if len(ex.work) > 0 {
		res.Inconclusive = append(res.Inconclusive, fmt.Sprintf("exploration stopped with %d unexplored prefixes", len(ex.work)))
	}
	sort.Strings(res.Inconclusive)
	res.Inconclusive = uniq(res.Inconclusive)
	return res
}

func uniq(s []string) []string {
	var out []string
	for i, x := range s {
		if i == 0 || x != s[i-1] {
			out = append(out, x)
		}
	}
	return out
}

func (ex *explorer) worker(w int) {
	var logw *os.File
	if ex.cfg.QueryLog != "" {
		logw, _ = os.Create(fmt.Sprintf("%s/%s.w%d.smt2", ex.cfg.QueryLog, ex.entry.Name(), w))
		defer logw.Close()
	}
	var solver *Solver
	var err error
	if logw != nil {
		solver, err = NewSolver(ex.cfg.Solver, ex.cfg.TimeoutMs, logw)
	} else {
		solver, err = NewSolver(ex.cfg.Solver, ex.cfg.TimeoutMs, nil)
	}
	if err != nil {
		ex.mu.Lock()
		ex.res.Inconclusive = append(ex.res.Inconclusive, "cannot start solver: "+err.Error())
		ex.stop = true
		ex.mu.Unlock()
		ex.cond.Broadcast()
		return
	}
	defer solver.Close()
	i := newInterpreter(ex, solver)
	for {
		prefix, ok := ex.pop()
		if !ok {
			break
		}
		i.runPath(prefix)
		ex.done()
		if !ex.cfg.Deadline.IsZero() && time.Now().After(ex.cfg.Deadline) {
			ex.mu.Lock()
			if !ex.stop {
				ex.res.Inconclusive = append(ex.res.Inconclusive, "time budget exhausted before all paths were explored")
				ex.stop = true
			}
			ex.mu.Unlock()
			ex.cond.Broadcast()
		}
	}
	ex.mu.Lock()
	r := ex.res
	r.Solver.Queries += solver.stats.Queries
	r.Solver.Sat += solver.stats.Sat
	r.Solver.Unsat += solver.stats.Unsat
	r.Solver.Unknown += solver.stats.Unknown
	r.Solver.Errors += solver.stats.Errors
	r.Solver.Duration += solver.stats.Duration
	if solver.stats.Errors > 0 {
		r.Inconclusive = append(r.Inconclusive, fmt.Sprintf("solver reported %d error lines", solver.stats.Errors))
	}
	r.Steps += i.steps
	r.AssertsSymbolic += i.assertsSymbolic
	ex.mu.Unlock()
	ex.funcsMu.Lock()
	for fn := range i.funcs {
		ex.funcs[fn] = true
	}
	for n, c := range i.nativeCalls {
		ex.natives[n] += c
	}
	ex.funcsMu.Unlock()
}

func newInterpreter(ex *explorer, solver *Solver) *interpreter {
	i := &interpreter{
		prog:     ex.prog,
		cfg:      ex.cfg,
		ex:       ex,
		solver:   solver,
		sizes:    ex.sizes,
		extCache: map[*ssa.Function]externalFn{},
		extMiss:  map[*ssa.Function]bool{},
		fnInfos:  map[*ssa.Function]*fnInfo{},
		funcs:    map[*ssa.Function]bool{},
		memo:     map[string]string{},
		nativeCalls: map[string]int64{},
		trace:    ex.cfg.Trace,
	}
	if rp := ex.prog.ImportedPackage("runtime"); rp != nil {
		i.runtimeErrorString = rp.Type("errorString").Object().Type()
	}
	if ep := ex.prog.ImportedPackage("errors"); ep != nil {
		i.errorStringPtr = types.NewPointer(ep.Type("errorString").Object().Type())
	}
	return i
}

// runPath executes the harness once, following prefix and then exploring.
func (i *interpreter) runPath(prefix []decision) {
	ex := i.ex
	p := &pathState{prefix: prefix, covers: map[string]int{}, asserts: map[string]int{}, tags: map[string]string{}, domains: map[string]*domain{}}
	i.path = p
	i.dead = false
	i.threads = nil
	i.sync = map[*value]*syncState{}
	i.natives = newNativeState()
	i.panicOrigin = nil
	startSteps := i.steps
	i.pathStart = i.steps
	i.solver.Reset()
	// fresh globals for the olareg module (incl. harness and environment models);
	// library packages (stdlib, go-digest) are initialised once per worker and kept:
	// nothing in olareg or the harnesses mutates their package-level state.
	if i.globals == nil {
		i.globals = make(map[*ssa.Global]*value)
		i.initialised = map[*ssa.Package]bool{}
		for _, pkg := range i.prog.AllPackages() {
			if i.cfg.initAllowed(pkg.Pkg.Path()) {
				i.initPkgs = append(i.initPkgs, pkg)
				if !perPathPackage(pkg.Pkg.Path()) {
					i.allocGlobals(pkg)
				}
			}
		}
	}
	for _, pkg := range i.initPkgs {
		if perPathPackage(pkg.Pkg.Path()) {
			i.allocGlobals(pkg)
			delete(i.initialised, pkg)
		}
	}
	main := &thread{id: 0, name: "main", resume: make(chan struct{}, 1)}
	i.threads = []*thread{main}
	i.cur = main

	var outcome pathAbort
	outcome.kind = abortEnd
	func() {
		defer func() {
			if r := recover(); r != nil {
				switch r := r.(type) {
				case pathAbort:
					outcome = r
				case engineError:
					outcome = pathAbort{kind: abortEngine, msg: r.msg}
				case threadKill:
					outcome = pathAbort{kind: abortEnd}
				case targetPanic:
					outcome = pathAbort{kind: abortViolation, msg: "uncaught panic: " + toString(r.v)}
					i.recordViolation("uncaught-panic", "harness panicked: "+toString(r.v)+i.originStack(r), nil)
				default:
					if re, ok := r.(error); ok {
						outcome = pathAbort{kind: abortViolation}
						i.recordViolation("uncaught-panic", "harness panicked: "+re.Error()+i.originStack(r), nil)
					} else {
						outcome = pathAbort{kind: abortEngine, msg: fmt.Sprint("interpreter panic: ", r)}
					}
				}
			}
		}()
		// package initialisers of the harness package (transitively, filtered)
		if init := ex.entry.Pkg.Func("init"); init != nil {
			call(i, nil, token.NoPos, init, nil)
		}
		for _, extra := range i.extraInits() {
			call(i, nil, token.NoPos, extra, nil)
		}
		call(i, nil, token.NoPos, ex.entry, nil)
		// let spawned goroutines finish: a goroutine left blocked forever is not a
		// deadlock of the program (main returned), but we run them for their effects.
		i.drainThreads()
	}()
	if i.pendingAbort != nil {
		outcome = *i.pendingAbort
		i.pendingAbort = nil
	}
	i.killThreads()

	// account
	ex.mu.Lock()
	r := ex.res
	np := atomic.AddInt64(&ex.npaths, 1)
	if len(p.trace) > r.MaxDecisions {
		r.MaxDecisions = len(p.trace)
	}
	switch outcome.kind {
	case abortInfeasible:
		r.PathsInfeasible++
	case abortUnwind:
		r.Paths++
		r.UnwindHits++
		r.Inconclusive = append(r.Inconclusive, outcome.msg)
	case abortBudget, abortEngine, abortSolver:
		r.Paths++
		r.Inconclusive = append(r.Inconclusive, outcome.msg)
	case abortDeadlock:
		r.Paths++
		r.Deadlocks++
	default:
		r.Paths++
	}
	if outcome.kind != abortInfeasible {
		for k, v := range p.covers {
			r.Covers[k] += int64(v)
		}
		for k, v := range p.asserts {
			r.Asserts[k] += int64(v)
		}
		if p.nontrivial {
			r.NonTrivial++
		}
		for _, c := range p.concLoss {
			r.ConcLoss[c]++
		}
		if len(r.Samples) < 6 && (len(r.Samples) < 2 || p.nontrivial) && outcome.kind == abortEnd {
			r.Samples = append(r.Samples, i.sample())
		}
	}
	for _, v := range p.violations {
		if len(r.Violations) < ex.cfg.MaxViolations {
			r.Violations = append(r.Violations, v)
		}
	}
	if ex.cfg.StopAtFirst && len(r.Violations) > 0 {
		ex.stop = true
	}
	if ex.cfg.MaxPaths > 0 && np >= ex.cfg.MaxPaths && !ex.stop {
		ex.stop = true
		r.Inconclusive = append(r.Inconclusive, fmt.Sprintf("path budget %d exhausted", ex.cfg.MaxPaths))
	}
	ex.mu.Unlock()
	if ex.stop {
		ex.cond.Broadcast()
	}
	_ = startSteps
}

func perPathPackage(path string) bool {
	return path == "github.com/olareg/olareg" || strings.HasPrefix(path, "github.com/olareg/olareg/")
}

func (i *interpreter) allocGlobals(pkg *ssa.Package) {
	for _, m := range pkg.Members {
		if g, ok := m.(*ssa.Global); ok {
			cell := zero(mustDeref(g.Type()))
			i.globals[g] = &cell
		}
	}
}

func (i *interpreter) originStack(p interface{}) string {
	if i.panicOrigin != nil {
		return " at" + i.panicOrigin.stack
	}
	return ""
}

func (i *interpreter) sample() PathSample {
	p := i.path
	s := PathSample{Decisions: len(p.trace), Notes: p.notes}
	for k := range p.covers {
		s.Covers = append(s.Covers, k)
	}
	sort.Strings(s.Covers)
	// a satisfying assignment of this path
	if len(p.vars) > 0 {
		res, model := i.solver.Check(nil, p.vars)
		if res == resSat {
			s.Inputs = i.inputsFromModel(model)
		}
	} else {
		s.Inputs = i.inputsFromModel(nil)
	}
	return s
}

func (i *interpreter) inputsFromModel(model map[string]uint64) []ReplayInput {
	var out []ReplayInput
	for _, in := range i.path.inputs {
		ri := ReplayInput{Name: in.Name, Kind: in.Kind}
		if in.v == nil {
			ri.Value = fmt.Sprint(in.conc)
		} else {
			bits := model[in.v.Name]
			if in.v.S.K == sBool {
				ri.Value = fmt.Sprint(bits)
			} else {
				ri.Value = fmt.Sprint(mkBV(bits, in.v.S.W).sval())
			}
		}
		out = append(out, ri)
	}
	return out
}

// ---- symbolic variables ----

func (i *interpreter) newVar(name string, s Sort) *Term {
	p := i.path
	p.nvar++
	clean := strings.Map(func(r rune) rune {
		if r >= 'a' && r <= 'z' || r >= 'A' && r <= 'Z' || r >= '0' && r <= '9' || r == '_' {
			return r
		}
		return '_'
	}, name)
	v := mkVar(fmt.Sprintf("v%d_%s", p.nvar, clean), s)
	p.vars = append(p.vars, v)
	i.solver.Declare(v)
	return v
}

// activate asserts the pending definitions of the variables mentioned by t.
func (i *interpreter) activate(t *Term) {
	if len(i.path.lazyDefs) == 0 {
		return
	}
	var names []string
	var rec func(t *Term)
	rec = func(t *Term) {
		if t.Op == "var" {
			if _, ok := i.path.lazyDefs[t.Name]; ok {
				names = append(names, t.Name)
			}
			return
		}
		for _, a := range t.Args {
			rec(a)
		}
	}
	rec(t)
	for _, n := range names {
		defs, ok := i.path.lazyDefs[n]
		if !ok {
			continue
		}
		delete(i.path.lazyDefs, n)
		for other, od := range i.path.lazyDefs {
			if len(od) > 0 && len(defs) > 0 && &od[0] == &defs[0] {
				delete(i.path.lazyDefs, other)
			}
		}
		for _, d := range defs {
			i.addPC(d)
		}
	}
}

func (i *interpreter) addPC(t *Term) {
	if t.isTrue() {
		return
	}
	i.activate(t)
	if len(i.path.domains) > 0 {
		i.path.narrow(t)
	}
	i.path.pc = append(i.path.pc, t)
	i.solver.Assert(t)
}

func (i *interpreter) nextDecision(k decisionKind) (decision, bool) {
	p := i.path
	if p.pos < len(p.prefix) {
		d := p.prefix[p.pos]
		p.pos++
		if d.K != k {
			panic(engineError{fmt.Sprintf("replay desynchronised: expected decision kind %d, recorded %d (non-deterministic execution)", k, d.K)})
		}
		p.trace = append(p.trace, d)
		return d, true
	}
	return decision{}, false
}

func (i *interpreter) check(extra ...*Term) solverResult {
	for _, x := range extra {
		i.activate(x)
	}
	res, _ := i.solver.Check(extra, nil)
	if res == resUnknown {
		panic(pathAbort{kind: abortSolver, msg: "solver answered unknown/timeout/error"})
	}
	return res
}

// domain is the exact set of feasible values of a finite input variable, maintained
// as long as every path constraint mentioning the variable mentions no other variable.
// Decisions over such a variable are evaluated by substitution instead of a query.
type domain struct {
	v    *Term
	vals []uint64
}

// narrow updates the domains with a new path constraint.
func (p *pathState) narrow(t *Term) {
	name := singleVar(t)
	if name != "" {
		if d, ok := p.domains[name]; ok {
			var keep []uint64
			for _, val := range d.vals {
				r := substTerm(t, map[string]*Term{name: constOf(d.v, val)})
				if !r.isConst() {
					delete(p.domains, name)
					return
				}
				if r.Val == 1 {
					keep = append(keep, val)
				}
			}
			d.vals = keep
			return
		}
		return
	}
	// several variables: all of them leave the fast path
	dropVars(t, p.domains)
}

func dropVars(t *Term, m map[string]*domain) {
	if t.Op == "var" {
		delete(m, t.Name)
		return
	}
	for _, a := range t.Args {
		dropVars(a, m)
	}
}

func constOf(v *Term, val uint64) *Term {
	if v.S.K == sBool {
		return mkBool(val == 1)
	}
	return mkBV(val, v.S.W)
}

// evalOverDomain evaluates boolean c for every value of its single finite variable.
// ok=false if c is not of that form.
func (p *pathState) evalOverDomain(c *Term) (canTrue, canFalse, ok bool) {
	name := singleVar(c)
	if name == "" {
		return false, false, false
	}
	d, has := p.domains[name]
	if !has {
		return false, false, false
	}
	for _, val := range d.vals {
		r := substTerm(c, map[string]*Term{name: constOf(d.v, val)})
		if !r.isConst() {
			return false, false, false
		}
		if r.Val == 1 {
			canTrue = true
		} else {
			canFalse = true
		}
	}
	return canTrue, canFalse, true
}

// forkBool decides a symbolic condition: follows the recorded decision, or asks the
// solver which sides are feasible and schedules the other one.
func (i *interpreter) forkBool(c *Term, where string) bool {
	if c.isConst() {
		return c.Val == 1
	}
	p := i.path
	if d, ok := i.nextDecision(dBranch); ok {
		take := d.V == 1
		if take {
			i.addPC(c)
		} else {
			i.addPC(tNot(c))
		}
		return take
	}
	p.nontrivial = true
	var take bool
	var rT, rF solverResult
	if ct, cf, ok := p.evalOverDomain(c); ok {
		// finite input: decided by evaluation over its exact domain, no query
		rT, rF = resUnsat, resUnsat
		if ct {
			rT = resSat
		}
		if cf {
			rF = resSat
		}
		if !ct && !cf {
			panic(pathAbort{kind: abortInfeasible})
		}
	} else {
		rT = i.check(c)
		if rT == resSat {
			rF = i.check(tNot(c))
		} else {
			rF = resSat
		}
	}
	if rT == resUnsat {
		take = false
	} else {
		if rF == resUnsat {
			take = true
		} else {
			// both feasible: explore true now, false later
			alt := make([]decision, len(p.trace)+1)
			copy(alt, p.trace)
			alt[len(p.trace)] = decision{K: dBranch, V: 0}
			i.ex.push(alt)
			take = true
		}
	}
	v := int64(0)
	if take {
		v = 1
		i.addPC(c)
	} else {
		i.addPC(tNot(c))
	}
	p.trace = append(p.trace, decision{K: dBranch, V: v})
	return take
}

// choose makes an n-way nondeterministic choice that does not depend on data
// (scheduling, select, map iteration order).
func (i *interpreter) choose(n int) int {
	if n <= 1 {
		return 0
	}
	p := i.path
	if d, ok := i.nextDecision(dChoice); ok {
		return int(d.V)
	}
	for alt := 1; alt < n; alt++ {
		a := make([]decision, len(p.trace)+1)
		copy(a, p.trace)
		a[len(p.trace)] = decision{K: dChoice, V: int64(alt)}
		i.ex.push(a)
	}
	p.trace = append(p.trace, decision{K: dChoice, V: 0})
	return 0
}

// concretizeInt returns a concrete value for v.  For a symbolic v it enumerates the
// feasible values within [lo,hi] (the caller has already dealt with the outside) and
// forks over them.  The result has the same dynamic Go type class (int64).
func (i *interpreter) concretizeInt(v value, lo, hi int64, where string) int64 {
	s, ok := v.(sym)
	if !ok {
		return asInt64(v)
	}
	t := s.t
	if t.S.K != sBV {
		panic(engineError{"concretizeInt of non-integer at " + where})
	}
	p := i.path
	if d, ok := i.nextDecision(dConc); ok {
		i.addPC(tEq(t, mkBV(uint64(d.V), t.S.W)))
		return d.V
	}
	p.nontrivial = true
	if name := singleVar(t); name != "" {
		if d, ok := p.domains[name]; ok && len(d.vals) > 0 {
			// finite input with an exact domain: the feasible values of t follow by evaluation
			seen := map[int64]bool{}
			var vals []int64
			okAll := true
			for _, val := range d.vals {
				r := substTerm(t, map[string]*Term{name: constOf(d.v, val)})
				if !r.isConst() {
					okAll = false
					break
				}
				if !seen[r.sval()] {
					seen[r.sval()] = true
					vals = append(vals, r.sval())
				}
			}
			if okAll {
				sort.Slice(vals, func(a, b int) bool { return vals[a] < vals[b] })
				for _, alt := range vals[1:] {
					a := make([]decision, len(p.trace)+1)
					copy(a, p.trace)
					a[len(p.trace)] = decision{K: dConc, V: alt}
					i.ex.push(a)
				}
				p.trace = append(p.trace, decision{K: dConc, V: vals[0]})
				i.addPC(tEq(t, mkBV(uint64(vals[0]), t.S.W)))
				return vals[0]
			}
		}
	}
	// enumerate feasible values
	probe := i.newVar("conc", t.S)
	i.addPC(tEq(probe, t))
	var vals []int64
	var block []*Term
	for {
		res, model := i.solver.Check(block, []*Term{probe})
		if res == resUnknown {
			panic(pathAbort{kind: abortSolver, msg: "solver answered unknown while concretising at " + where})
		}
		if res == resUnsat {
			break
		}
		val := mkBV(model[probe.Name], t.S.W)
		vals = append(vals, val.sval())
		block = append(block, tNot(tEq(probe, val)))
		if len(vals) > i.cfg.MaxConc {
			panic(engineError{fmt.Sprintf("symbolic value with more than %d feasible values used structurally at %s: harness must bound it", i.cfg.MaxConc, where)})
		}
	}
	if len(vals) == 0 {
		panic(pathAbort{kind: abortInfeasible})
	}
	sort.Slice(vals, func(a, b int) bool { return vals[a] < vals[b] })
	for _, alt := range vals[1:] {
		a := make([]decision, len(p.trace)+1)
		copy(a, p.trace)
		a[len(p.trace)] = decision{K: dConc, V: alt}
		i.ex.push(a)
	}
	p.trace = append(p.trace, decision{K: dConc, V: vals[0]})
	i.addPC(tEq(t, mkBV(uint64(vals[0]), t.S.W)))
	return vals[0]
}

// concretizeValue makes a scalar concrete, keeping its Go type according to typ.
func (i *interpreter) concretizeValue(v value, typ types.Type, where string) value {
	s, ok := v.(sym)
	if !ok {
		return v
	}
	if s.t.S.K == sBool {
		return i.forkBool(s.t, where)
	}
	if s.t.S.K == sFP64 {
		panic(engineError{"concretisation of symbolic float at " + where})
	}
	k := i.concretizeInt(v, 0, 0, where)
	return valueOfTerm(mkBV(uint64(k), s.t.S.W), typ)
}

// concretizeKey makes a map key concrete (top-level scalars only).
func (i *interpreter) concretizeKey(k value) value {
	switch kv := k.(type) {
	case sym:
		if kv.t.S.K == sBool {
			return i.forkBool(kv.t, "map key")
		}
		// width tells the Go type class only approximately; keys of symbolic ints are rare
		n := i.concretizeInt(kv, 0, 0, "map key")
		switch kv.t.S.W {
		case 64:
			return int(n)
		case 32:
			return int32(n)
		case 8:
			return uint8(n)
		}
		panic(engineError{"symbolic map key of unsupported width"})
	case iface:
		if isSym(kv.v) {
			return iface{t: kv.t, v: i.concretizeValue(kv.v, kv.t, "map key")}
		}
	}
	return k
}

// mapOrder picks the iteration order for a map range.
func (i *interpreter) mapOrder(keys []value) []value {
	n := len(keys)
	if n < 2 || i.cfg.MapOrder == 0 || !i.path.mapOrderOn() {
		return keys
	}
	if i.cfg.MapOrder == 2 && n <= 3 {
		perms := permutations(n)
		c := i.choose(len(perms))
		out := make([]value, n)
		for k, idx := range perms[c] {
			out[k] = keys[idx]
		}
		return out
	}
	if i.choose(2) == 1 {
		out := make([]value, n)
		for k := range keys {
			out[n-1-k] = keys[k]
		}
		return out
	}
	return keys
}

func (p *pathState) mapOrderOn() bool { return p.tags["__maporder"] == "on" }

func permutations(n int) [][]int {
	var res [][]int
	var rec func(cur []int, used []bool)
	rec = func(cur []int, used []bool) {
		if len(cur) == n {
			res = append(res, append([]int(nil), cur...))
			return
		}
		for k := 0; k < n; k++ {
			if !used[k] {
				used[k] = true
				rec(append(cur, k), used)
				used[k] = false
			}
		}
	}
	rec(nil, make([]bool, n))
	return res
}

// ---- assumptions and assertions ----

func (i *interpreter) assume(c value) {
	if b, ok := c.(bool); ok {
		if !b {
			panic(pathAbort{kind: abortInfeasible})
		}
		return
	}
	t := termOf(c)
	if i.path.pos < len(i.path.prefix) {
		// below the frontier feasibility was already established
		i.addPC(t)
		return
	}
	if i.check(t) == resUnsat {
		panic(pathAbort{kind: abortInfeasible})
	}
	i.addPC(t)
}

func (i *interpreter) assert(c value, id string) {
	p := i.path
	p.asserts[id]++
	if b, ok := c.(bool); ok {
		if !b {
			i.recordViolation(id, "assertion "+id+" is false on this path", nil)
			i.afterViolation()
		}
		return
	}
	t := termOf(c)
	if t.isConst() {
		if t.Val == 0 {
			i.recordViolation(id, "assertion "+id+" is false on this path", nil)
			i.afterViolation()
		}
		return
	}
	p.nontrivial = true
	i.assertsSymbolic++
	if ct, cf, ok := p.evalOverDomain(t); ok && ct && !cf {
		// a finite input with an exact domain: true for every value, no query needed
		i.addPC(t)
		return
	}
	neg := tNot(t)
	i.activate(neg)
	res, model := i.solver.Check([]*Term{neg}, p.vars)
	if res == resUnknown {
		panic(pathAbort{kind: abortSolver, msg: "solver answered unknown on assertion " + id})
	}
	if res == resSat {
		i.recordViolation(id, "assertion "+id+" can be false", model)
		// continue on the side where the assertion holds, if any
		if i.check(t) == resUnsat {
			i.afterViolation()
			panic(pathAbort{kind: abortViolation})
		}
	}
	i.addPC(t)
}

func (i *interpreter) afterViolation() {
	panic(pathAbort{kind: abortViolation})
}

// recordViolation stores a counterexample: the model gives a value to every input.
func (i *interpreter) recordViolation(id, msg string, model map[string]uint64) {
	p := i.path
	if model == nil && len(p.vars) > 0 {
		res, m := i.solver.Check(nil, p.vars)
		if res != resSat {
			// path condition itself not satisfiable (should not happen)
			return
		}
		model = m
	}
	v := Violation{Harness: i.ex.entry.Name(), AssertID: id, Msg: msg, Tags: map[string]string{}}
	for k, val := range p.tags {
		if !strings.HasPrefix(k, "__") {
			v.Tags[k] = val
		}
	}
	v.Inputs = i.inputsFromModel(model)
	v.Trace = append([]string(nil), p.notes...)
	for _, d := range p.trace {
		v.Decisions = append(v.Decisions, Decision{K: int(d.K), V: d.V})
	}
	p.violations = append(p.violations, v)
}

// divByConst returns fresh variables q, r with x = c*q + r under Go's truncated
// division, constrained in the path condition (a definition, not a branch).
func (i *interpreter) divByConst(x *Term, c int64, signed bool) (q, r *Term) {
	p := i.path
	key := fmt.Sprintf("%p/%d/%v", x, c, signed)
	if d, ok := p.divCache[key]; ok {
		return d[0], d[1]
	}
	w := x.S.W
	q = i.newVar("quo", x.S)
	r = i.newVar("rem", x.S)
	zero := mkBV(0, w)
	var defs []*Term
	add := func(t *Term) { defs = append(defs, t) }
	defer func() {
		if p.lazyDefs == nil {
			p.lazyDefs = map[string][]*Term{}
		}
		// both variables share the definition; whichever is used first asserts it
		p.lazyDefs[q.Name] = defs
		p.lazyDefs[r.Name] = defs
	}()
	if signed {
		ac := c
		if ac < 0 {
			ac = -ac
		}
		// x = |c|*q0 + r with q0 = trunc(x/|c|); the quotient for negative c is -q0
		q0 := q
		if c < 0 {
			q0 = bvNeg(q)
		}
		cT := mkBV(uint64(ac), w)
		add(tEq(x, bvBin("bvadd", bvBin("bvmul", cT, q0), r)))
		maxQ := int64((uint64(1)<<uint(w-1) - 1) / uint64(ac))
		add(tAnd(bvCmp("bvsle", mkBV(uint64(-maxQ-1), w), q0), bvCmp("bvsle", q0, mkBV(uint64(maxQ+1), w))))
		nonneg := bvCmp("bvsle", zero, x)
		add(tIte(nonneg,
			tAnd(bvCmp("bvsle", zero, r), bvCmp("bvslt", r, cT)),
			tAnd(bvCmp("bvslt", bvNeg(cT), r), bvCmp("bvsle", r, zero))))
		// the sign of a non-zero quotient follows the operands
		add(tIte(nonneg, bvCmp("bvsle", zero, q0), bvCmp("bvsle", q0, zero)))
	} else {
		cT := mkBV(uint64(c), w)
		add(tEq(x, bvBin("bvadd", bvBin("bvmul", cT, q), r)))
		add(bvCmp("bvult", r, cT))
		add(bvCmp("bvule", q, mkBV(mask(w)/uint64(c), w)))
	}
	if p.divCache == nil {
		p.divCache = map[string][2]*Term{}
	}
	p.divCache[key] = [2]*Term{q, r}
	return q, r
}
