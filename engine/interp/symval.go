package interp

// Symbolic scalar values and the symbolic versions of the SSA operators.

import (
	"fmt"
	"go/token"
	"go/types"
)

// sym is a symbolic scalar (integer of any width, bool, or float64).
type sym struct{ t *Term }

// nativeObj wraps a host Go object (regexp, hash, json coder) living outside the
// interpreter.  It is always handled through intercepted functions.
type nativeObj struct {
	v    interface{}
	kind string
}

// engineError aborts the current path as INCONCLUSIVE (unsupported construct, model
// limitation); it is never reported as a property violation.
type engineError struct{ msg string }

func (e engineError) Error() string { return "engine: " + e.msg }

// targetRuntimeError is a Go run-time panic of the interpreted program
// (index out of range, nil map write, ...).  recover() sees it as runtime.Error.
type targetRuntimeError string

func (e targetRuntimeError) Error() string { return "runtime error: " + string(e) }
func (e targetRuntimeError) RuntimeError() {}

func isSym(v value) bool { _, ok := v.(sym); return ok }

// basicInfo returns bit width and signedness of an integer type, or ok=false.
func intInfo(t types.Type) (w int, signed bool, ok bool) {
	b, isB := t.Underlying().(*types.Basic)
	if !isB {
		return 0, false, false
	}
	switch b.Kind() {
	case types.Int, types.Int64, types.UntypedInt:
		return 64, true, true
	case types.Int8:
		return 8, true, true
	case types.Int16:
		return 16, true, true
	case types.Int32, types.UntypedRune:
		return 32, true, true
	case types.Uint, types.Uint64, types.Uintptr:
		return 64, false, true
	case types.Uint8:
		return 8, false, true
	case types.Uint16:
		return 16, false, true
	case types.Uint32:
		return 32, false, true
	}
	return 0, false, false
}

// termOf converts a concrete or symbolic scalar to a term.
func termOf(v value) *Term {
	switch v := v.(type) {
	case sym:
		return v.t
	case bool:
		return mkBool(v)
	case int:
		return mkBV(uint64(v), 64)
	case int8:
		return mkBV(uint64(v), 8)
	case int16:
		return mkBV(uint64(v), 16)
	case int32:
		return mkBV(uint64(v), 32)
	case int64:
		return mkBV(uint64(v), 64)
	case uint:
		return mkBV(uint64(v), 64)
	case uint8:
		return mkBV(uint64(v), 8)
	case uint16:
		return mkBV(uint64(v), 16)
	case uint32:
		return mkBV(uint64(v), 32)
	case uint64:
		return mkBV(v, 64)
	case uintptr:
		return mkBV(uint64(v), 64)
	case float64:
		return mkFP(v)
	case float32:
		return mkFP(float64(v))
	}
	panic(engineError{fmt.Sprintf("termOf: unsupported %T", v)})
}

// valueOfTerm turns a term back into a value of static type t: constants become
// concrete Go values of the right dynamic type, everything else stays symbolic.
func valueOfTerm(t *Term, typ types.Type) value {
	if !t.isConst() {
		return sym{t}
	}
	b, ok := typ.Underlying().(*types.Basic)
	if !ok {
		panic(engineError{"valueOfTerm: non-basic type " + typ.String()})
	}
	switch b.Kind() {
	case types.Bool, types.UntypedBool:
		return t.Val == 1
	case types.Int, types.UntypedInt:
		return int(t.sval())
	case types.Int8:
		return int8(t.sval())
	case types.Int16:
		return int16(t.sval())
	case types.Int32, types.UntypedRune:
		return int32(t.sval())
	case types.Int64:
		return int64(t.sval())
	case types.Uint:
		return uint(t.Val)
	case types.Uint8:
		return uint8(t.Val)
	case types.Uint16:
		return uint16(t.Val)
	case types.Uint32:
		return uint32(t.Val)
	case types.Uint64:
		return uint64(t.Val)
	case types.Uintptr:
		return uintptr(t.Val)
	case types.Float64, types.UntypedFloat:
		return t.F
	case types.Float32:
		return float32(t.F)
	}
	panic(engineError{"valueOfTerm: unsupported kind " + typ.String()})
}

var tBoolType = types.Typ[types.Bool]

// symBinop implements a binary operator where at least one operand is symbolic.
// tx, ty are the static operand types.
func symBinop(op token.Token, tx, ty types.Type, x, y value) value {
	a, b := termOf(x), termOf(y)
	if a.S.K == sBool {
		switch op {
		case token.EQL:
			return valueOfTerm(tEq(a, b), tBoolType)
		case token.NEQ:
			return valueOfTerm(tNot(tEq(a, b)), tBoolType)
		case token.LAND, token.AND:
			return valueOfTerm(tAnd(a, b), tBoolType)
		case token.LOR, token.OR:
			return valueOfTerm(tOr(a, b), tBoolType)
		}
		panic(engineError{"symBinop: bool op " + op.String()})
	}
	if a.S.K == sFP64 {
		switch op {
		case token.ADD:
			return valueOfTerm(fpBin("fp.add", a, b), tx)
		case token.SUB:
			return valueOfTerm(fpBin("fp.sub", a, b), tx)
		case token.MUL:
			return valueOfTerm(fpBin("fp.mul", a, b), tx)
		case token.QUO:
			return valueOfTerm(fpBin("fp.div", a, b), tx)
		case token.LSS:
			return valueOfTerm(fpCmp("fp.lt", a, b), tBoolType)
		case token.LEQ:
			return valueOfTerm(fpCmp("fp.leq", a, b), tBoolType)
		case token.GTR:
			return valueOfTerm(fpCmp("fp.gt", a, b), tBoolType)
		case token.GEQ:
			return valueOfTerm(fpCmp("fp.geq", a, b), tBoolType)
		case token.EQL:
			return valueOfTerm(tEq(a, b), tBoolType)
		case token.NEQ:
			return valueOfTerm(tNot(tEq(a, b)), tBoolType)
		}
		panic(engineError{"symBinop: float op " + op.String()})
	}
	w, signed, ok := intInfo(tx)
	if !ok {
		panic(engineError{"symBinop: non-integer symbolic operand of type " + tx.String()})
	}
	if a.S.W != w {
		panic(engineError{fmt.Sprintf("symBinop: width mismatch %d vs %s", a.S.W, tx)})
	}
	switch op {
	case token.SHL, token.SHR:
		// shift count has its own (unsigned or signed-nonnegative) type
		wy, _, _ := intInfo(ty)
		cnt := b
		if wy < w {
			cnt = bvResize(b, w, false)
		} else if wy > w {
			// saturate: counts >= w behave like w
			big := bvCmp("bvule", mkBV(uint64(w), wy), b)
			cnt = tIte(big, mkBV(uint64(w), w), bvResize(b, w, false))
		}
		if op == token.SHL {
			return valueOfTerm(bvBin("bvshl", a, cnt), tx)
		}
		if signed {
			return valueOfTerm(bvBin("bvashr", a, cnt), tx)
		}
		return valueOfTerm(bvBin("bvlshr", a, cnt), tx)
	}
	if b.S.W != w {
		panic(engineError{fmt.Sprintf("symBinop: operand width mismatch %d vs %d (%s)", a.S.W, b.S.W, op)})
	}
	switch op {
	case token.ADD:
		return valueOfTerm(bvBin("bvadd", a, b), tx)
	case token.SUB:
		return valueOfTerm(bvBin("bvsub", a, b), tx)
	case token.MUL:
		return valueOfTerm(bvBin("bvmul", a, b), tx)
	case token.QUO:
		if signed {
			return valueOfTerm(bvBin("bvsdiv", a, b), tx)
		}
		return valueOfTerm(bvBin("bvudiv", a, b), tx)
	case token.REM:
		if signed {
			return valueOfTerm(bvBin("bvsrem", a, b), tx)
		}
		return valueOfTerm(bvBin("bvurem", a, b), tx)
	case token.AND:
		return valueOfTerm(bvBin("bvand", a, b), tx)
	case token.OR:
		return valueOfTerm(bvBin("bvor", a, b), tx)
	case token.XOR:
		return valueOfTerm(bvBin("bvxor", a, b), tx)
	case token.AND_NOT:
		return valueOfTerm(bvBin("bvand", a, bvNot(b)), tx)
	case token.EQL:
		return valueOfTerm(tEq(a, b), tBoolType)
	case token.NEQ:
		return valueOfTerm(tNot(tEq(a, b)), tBoolType)
	case token.LSS:
		if signed {
			return valueOfTerm(bvCmp("bvslt", a, b), tBoolType)
		}
		return valueOfTerm(bvCmp("bvult", a, b), tBoolType)
	case token.LEQ:
		if signed {
			return valueOfTerm(bvCmp("bvsle", a, b), tBoolType)
		}
		return valueOfTerm(bvCmp("bvule", a, b), tBoolType)
	case token.GTR:
		if signed {
			return valueOfTerm(bvCmp("bvslt", b, a), tBoolType)
		}
		return valueOfTerm(bvCmp("bvult", b, a), tBoolType)
	case token.GEQ:
		if signed {
			return valueOfTerm(bvCmp("bvsle", b, a), tBoolType)
		}
		return valueOfTerm(bvCmp("bvule", b, a), tBoolType)
	}
	panic(engineError{"symBinop: unsupported op " + op.String()})
}

func symUnop(op token.Token, typ types.Type, x sym) value {
	switch op {
	case token.NOT:
		return valueOfTerm(tNot(x.t), tBoolType)
	case token.SUB:
		if x.t.S.K == sFP64 {
			return valueOfTerm(fpBin("fp.sub", mkFP(0), x.t), typ)
		}
		return valueOfTerm(bvNeg(x.t), typ)
	case token.XOR:
		return valueOfTerm(bvNot(x.t), typ)
	}
	panic(engineError{"symUnop: unsupported op " + op.String()})
}

// symConv converts symbolic x of type src to type dst.
func symConv(dst, src types.Type, x sym) value {
	db, ok := dst.Underlying().(*types.Basic)
	if !ok {
		panic(engineError{"symConv: to non-basic " + dst.String()})
	}
	sw, ssigned, sIsInt := intInfo(src)
	dw, dsigned, dIsInt := intInfo(dst)
	switch {
	case sIsInt && dIsInt:
		return valueOfTerm(bvResize(x.t, dw, ssigned), dst)
	case sIsInt && db.Info()&types.IsFloat != 0:
		_ = sw
		return valueOfTerm(fpFromBV(x.t, ssigned), dst)
	case x.t.S.K == sFP64 && dIsInt:
		return valueOfTerm(fpToBV(x.t, dw, dsigned), dst)
	case x.t.S.K == sFP64 && db.Info()&types.IsFloat != 0:
		return x
	case x.t.S.K == sBool && db.Kind() == types.Bool:
		return x
	}
	panic(engineError{fmt.Sprintf("symConv: unsupported %s -> %s", src, dst)})
}

// equals returns x == y for type t as a value: a Go bool, or a symbolic bool when a
// symbolic scalar takes part in the comparison.
func equals(t types.Type, x, y value) value {
	if isSym(x) || isSym(y) {
		return valueOfTerm(tEq(termOf(x), termOf(y)), tBoolType)
	}
	switch x := x.(type) {
	case bool:
		return x == y.(bool)
	case int:
		return x == y.(int)
	case int8:
		return x == y.(int8)
	case int16:
		return x == y.(int16)
	case int32:
		return x == y.(int32)
	case int64:
		return x == y.(int64)
	case uint:
		return x == y.(uint)
	case uint8:
		return x == y.(uint8)
	case uint16:
		return x == y.(uint16)
	case uint32:
		return x == y.(uint32)
	case uint64:
		return x == y.(uint64)
	case uintptr:
		return x == y.(uintptr)
	case float32:
		return x == y.(float32)
	case float64:
		return x == y.(float64)
	case complex64:
		return x == y.(complex64)
	case complex128:
		return x == y.(complex128)
	case string:
		return x == y.(string)
	case *value:
		return x == y.(*value)
	case *vchan:
		return x == y.(*vchan)
	case structure:
		y := y.(structure)
		tStruct := t.Underlying().(*types.Struct)
		var acc value = true
		for i, n := 0, tStruct.NumFields(); i < n; i++ {
			if f := tStruct.Field(i); f.Name() != "_" {
				acc = andValues(acc, equals(f.Type(), x[i], y[i]))
				if acc == false {
					return false
				}
			}
		}
		return acc
	case array:
		y := y.(array)
		tElt := t.Underlying().(*types.Array).Elem()
		var acc value = true
		for i, xi := range x {
			acc = andValues(acc, equals(tElt, xi, y[i]))
			if acc == false {
				return false
			}
		}
		return acc
	case iface:
		y := y.(iface)
		if !sameType(x.t, y.t) {
			return false
		}
		if x.t == nil {
			return true
		}
		return equals(x.t, x.v, y.v)
	case *nativeObj:
		yo, ok := y.(*nativeObj)
		return ok && x == yo
	}
	// Since map, func and slice don't support comparison, this
	// case is only reachable if one of x or y is literally nil
	// (handled in eqnil) or via interface{} values.
	panic(targetRuntimeError(fmt.Sprintf("comparing uncomparable type %s", t)))
}

func andValues(a, b value) value {
	if ab, ok := a.(bool); ok {
		if !ab {
			return false
		}
		return b
	}
	if bb, ok := b.(bool); ok {
		if !bb {
			return false
		}
		return a
	}
	return sym{tAnd(termOf(a), termOf(b))}
}

func notValue(a value) value {
	if ab, ok := a.(bool); ok {
		return !ab
	}
	return sym{tNot(termOf(a))}
}
