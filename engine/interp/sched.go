package interp

// Modelled goroutines, mutexes, wait groups, Once, channels and select.
//
// Exactly one engine thread runs at a time (baton passing between host goroutines).
// Sequential mode: a thread runs until it blocks or ends; spawned goroutines run when
// the current thread blocks, at vh.Sched() and at the end of the harness.
// Preemptive mode (vh.Preempt(n)): before every ACQUIRING synchronisation operation the engine
// may switch to another runnable thread, at most n times per path; the choice is a
// fork point.  A state where an unfinished thread exists and none can run is a deadlock.

import (
	"fmt"
	"go/token"
	"go/types"

	"golang.org/x/tools/go/ssa"
)

type threadState int

const (
	tRunnable threadState = iota
	tBlocked
	tDone
)

type thread struct {
	id      int
	name    string
	state   threadState
	resume  chan struct{}
	waitFor string
	cond    func() bool // ready condition when blocked
	exited  chan struct{}
}

type syncState struct {
	locked  bool
	owner   *thread
	counter int64 // WaitGroup
	done    bool  // Once
	rlock   int
}

type vchan struct {
	buf    []value
	cap    int
	closed bool
	sendq  []*pendingSend // blocked senders (unbuffered or full)
	recvWaiting int
}

type pendingSend struct {
	v     value
	taken bool
}

func (i *interpreter) extraInits() []*ssa.Function { return nil }

// spawn creates a new engine thread for `go fn(args)`.
func (i *interpreter) spawn(fn value, args []value, pos token.Pos) {
	t := &thread{id: len(i.threads), resume: make(chan struct{}, 1), exited: make(chan struct{})}
	t.name = fmt.Sprintf("g%d", t.id)
	if f, ok := fn.(*ssa.Function); ok {
		t.name += ":" + f.Name()
	} else if c, ok := fn.(*closure); ok {
		t.name += ":" + c.Fn.Name()
	}
	i.threads = append(i.threads, t)
	go func() {
		defer close(t.exited)
		<-t.resume
		if i.dead {
			return
		}
		defer func() {
			r := recover()
			t.state = tDone
			if r == nil {
				i.threadExit(t)
				return
			}
			switch r := r.(type) {
			case threadKill:
				return
			case pathAbort:
				i.abortFromThread(r)
			case engineError:
				i.abortFromThread(pathAbort{kind: abortEngine, msg: r.msg})
			case targetPanic:
				i.recordViolation("goroutine-panic", "panic in goroutine "+t.name+": "+toString(r.v), nil)
				i.abortFromThread(pathAbort{kind: abortViolation})
			default:
				if re, ok := r.(error); ok {
					i.recordViolation("goroutine-panic", "panic in goroutine "+t.name+": "+re.Error(), nil)
					i.abortFromThread(pathAbort{kind: abortViolation})
				} else {
					i.abortFromThread(pathAbort{kind: abortEngine, msg: fmt.Sprint("interpreter panic in goroutine: ", r)})
				}
			}
		}()
		call(i, nil, pos, fn, args)
	}()
}

// abortFromThread ends the whole path from a non-main thread.
func (i *interpreter) abortFromThread(a pathAbort) {
	if i.pendingAbort == nil {
		i.pendingAbort = &a
	}
	i.dead = true
	main := i.threads[0]
	main.resume <- struct{}{}
}

// threadExit is called when a non-main thread ends normally: hand the baton on.
func (i *interpreter) threadExit(t *thread) {
	next := i.pickNext(nil)
	if next == nil {
		// nobody can run: if main is blocked forever this is a deadlock
		i.deadlock()
		return
	}
	i.cur = next
	next.resume <- struct{}{}
}

func (i *interpreter) deadlock() {
	desc := ""
	for _, t := range i.threads {
		if t.state == tBlocked {
			desc += fmt.Sprintf("[%s waits for %s] ", t.name, t.waitFor)
		}
	}
	i.path.notes = append(i.path.notes, "deadlock: "+desc)
	i.recordViolation("deadlock", "deadlock: no thread can run: "+desc, nil)
	a := pathAbort{kind: abortDeadlock, msg: desc}
	if i.cur != nil && i.cur.id == 0 && i.cur.state != tDone {
		panic(a)
	}
	i.abortFromThread(a)
}

// runnable re-evaluates blocked threads' conditions.
func (i *interpreter) runnable() []*thread {
	var rs []*thread
	for _, t := range i.threads {
		if t.state == tBlocked && t.cond != nil && t.cond() {
			t.state = tRunnable
		}
		if t.state == tRunnable {
			rs = append(rs, t)
		}
	}
	return rs
}

// pickNext chooses the next thread to run other than `not` (may be nil).
func (i *interpreter) pickNext(not *thread) *thread {
	var cands []*thread
	for _, t := range i.runnable() {
		if t != not {
			cands = append(cands, t)
		}
	}
	if len(cands) == 0 {
		return nil
	}
	// at a blocking point or a thread exit the next thread is the lowest-numbered
	// runnable one; with FULLSCHED every runnable thread is a fork alternative
	if i.path.preemptBound > 0 && len(cands) > 1 && i.cfg.Params["FULLSCHED"] == 1 {
		return cands[i.choose(len(cands))]
	}
	return cands[0]
}

// switchTo parks the current thread and resumes next.
func (i *interpreter) switchTo(next *thread) {
	me := i.cur
	if next == me {
		return
	}
	i.cur = next
	next.resume <- struct{}{}
	<-me.resume
	if i.dead {
		if me.id == 0 {
			if i.pendingAbort != nil {
				a := *i.pendingAbort
				panic(a)
			}
			panic(pathAbort{kind: abortEnd})
		}
		panic(threadKill{})
	}
	i.cur = me
}

// block parks the current thread until cond() holds.
func (i *interpreter) block(what string, cond func() bool) {
	me := i.cur
	for !cond() {
		me.state = tBlocked
		me.waitFor = what
		me.cond = cond
		next := i.pickNext(me)
		if next == nil {
			i.deadlock()
			// deadlock() panics on main; on other threads it aborted the path
			panic(threadKill{})
		}
		i.switchTo(next)
	}
	me.state = tRunnable
	me.cond = nil
}

// preemptPoint: in preemptive mode, optionally switch to another runnable thread.
func (i *interpreter) preemptPoint(what string) {
	p := i.path
	if p.preemptBound == 0 || p.switches >= p.preemptBound {
		return
	}
	me := i.cur
	var others []*thread
	for _, t := range i.runnable() {
		if t != me {
			others = append(others, t)
		}
	}
	if len(others) == 0 {
		return
	}
	c := i.choose(len(others) + 1)
	if c == 0 {
		return
	}
	p.switches++
	p.notes = append(p.notes, fmt.Sprintf("switch %s -> %s before %s", me.name, others[c-1].name, what))
	i.switchTo(others[c-1])
}

// drainThreads runs all other threads until none is runnable (end of harness, vh.Sched).
func (i *interpreter) drainThreads() {
	me := i.cur
	for {
		next := i.pickNext(me)
		if next == nil {
			return
		}
		// mark me as waiting for the others; I am always ready to continue
		me.state = tBlocked
		me.waitFor = "sched"
		me.cond = func() bool { return true }
		i.switchTo(next)
		me.state = tRunnable
		me.cond = nil
	}
}

// killThreads terminates all parked threads at the end of a path.
func (i *interpreter) killThreads() {
	i.dead = true
	for _, t := range i.threads[1:] {
		if t.state != tDone {
			select {
			case t.resume <- struct{}{}:
			default:
			}
		}
	}
	for _, t := range i.threads[1:] {
		<-t.exited
	}
}

// ---- sync.Mutex / WaitGroup / Once ----

func (i *interpreter) syncOf(p *value) *syncState {
	if p == nil {
		panic(targetRuntimeError("invalid memory address or nil pointer dereference (nil sync object)"))
	}
	s := i.sync[p]
	if s == nil {
		s = &syncState{}
		i.sync[p] = s
	}
	return s
}

func (i *interpreter) mutexLock(p *value) {
	s := i.syncOf(p)
	i.preemptPoint("Lock")
	if s.locked {
		who := "?"
		if s.owner != nil {
			who = s.owner.name
		}
		i.block("mutex held by "+who, func() bool { return !s.locked })
	}
	s.locked = true
	s.owner = i.cur
}

func (i *interpreter) mutexUnlock(p *value) {
	s := i.syncOf(p)
	if !s.locked {
		i.recordViolation("unlock-of-unlocked", "sync: unlock of unlocked mutex", nil)
		panic(pathAbort{kind: abortViolation})
	}
	s.locked = false
	s.owner = nil
}

func (i *interpreter) wgAdd(p *value, n int64) {
	s := i.syncOf(p)
	s.counter += n
	if s.counter < 0 {
		panic(targetPanic{iface{t: types.Typ[types.String], v: "sync: negative WaitGroup counter"}})
	}
}

func (i *interpreter) wgWait(p *value) {
	s := i.syncOf(p)
	i.preemptPoint("WaitGroup.Wait")
	if s.counter > 0 {
		i.block("WaitGroup", func() bool { return s.counter == 0 })
	}
}

// ---- channels ----

func (i *interpreter) chanSend(c *vchan, v value) {
	if c == nil {
		i.block("send on nil channel", func() bool { return false })
	}
	if c.closed {
		panic(targetPanic{iface{t: types.Typ[types.String], v: "send on closed channel"}})
	}
	if len(c.buf) < c.cap {
		c.buf = append(c.buf, v)
		return
	}
	if c.cap > 0 {
		i.block("send on full channel", func() bool { return len(c.buf) < c.cap || c.closed })
		if c.closed {
			panic(targetPanic{iface{t: types.Typ[types.String], v: "send on closed channel"}})
		}
		c.buf = append(c.buf, v)
		return
	}
	// unbuffered: wait for a receiver to take the value
	ps := &pendingSend{v: v}
	c.sendq = append(c.sendq, ps)
	i.block("send on unbuffered channel", func() bool { return ps.taken || c.closed })
	if !ps.taken {
		panic(targetPanic{iface{t: types.Typ[types.String], v: "send on closed channel"}})
	}
}

func (c *vchan) recvReady() bool {
	return c != nil && (len(c.buf) > 0 || len(c.sendq) > 0 || c.closed)
}

func (c *vchan) takeOne() (value, bool) {
	if len(c.buf) > 0 {
		v := c.buf[0]
		c.buf = c.buf[1:]
		return v, true
	}
	if len(c.sendq) > 0 {
		ps := c.sendq[0]
		c.sendq = c.sendq[1:]
		ps.taken = true
		return ps.v, true
	}
	return nil, false // closed
}

func (i *interpreter) chanRecv(c *vchan) (value, bool) {
	i.preemptPoint("recv")
	if c == nil {
		i.block("receive on nil channel", func() bool { return false })
	}
	if !c.recvReady() {
		i.block("receive on empty channel", c.recvReady)
	}
	return c.takeOne()
}

func (i *interpreter) chanClose(c *vchan) {
	if c == nil {
		panic(targetPanic{iface{t: types.Typ[types.String], v: "close of nil channel"}})
	}
	if c.closed {
		panic(targetPanic{iface{t: types.Typ[types.String], v: "close of closed channel"}})
	}
	c.closed = true
}

func (i *interpreter) selectOp(fr *frame, instr *ssa.Select) value {
	i.preemptPoint("select")
	type scase struct {
		c    *vchan
		send bool
		v    value
	}
	cases := make([]scase, len(instr.States))
	for k, st := range instr.States {
		cases[k].c, _ = fr.get(st.Chan).(*vchan)
		if st.Dir == types.SendOnly {
			cases[k].send = true
			cases[k].v = fr.get(st.Send)
		}
	}
	ready := func() []int {
		var r []int
		for k, sc := range cases {
			if sc.c == nil {
				continue
			}
			if sc.send {
				if sc.c.closed || len(sc.c.buf) < sc.c.cap {
					r = append(r, k)
				}
			} else if sc.c.recvReady() {
				r = append(r, k)
			}
		}
		return r
	}
	rs := ready()
	chosen := -1
	if len(rs) == 0 {
		if instr.Blocking {
			i.block("select", func() bool { return len(ready()) > 0 })
			rs = ready()
		}
	}
	if len(rs) > 0 {
		chosen = rs[i.choose(len(rs))]
	}
	var recv value
	recvOk := false
	if chosen >= 0 {
		sc := cases[chosen]
		if sc.send {
			if sc.c.closed {
				panic(targetPanic{iface{t: types.Typ[types.String], v: "send on closed channel"}})
			}
			sc.c.buf = append(sc.c.buf, sc.v)
		} else {
			recv, recvOk = sc.c.takeOne()
		}
	}
	r := tuple{chosen, recvOk}
	for k, st := range instr.States {
		if st.Dir == types.RecvOnly {
			var v value
			if k == chosen && recvOk {
				v = recv
			} else {
				v = zero(st.Chan.Type().Underlying().(*types.Chan).Elem())
			}
			r = append(r, v)
		}
	}
	return r
}
