package interp

// Conversion between interpreter values and host Go values (reflect), used by native
// call-outs: pure library functions executed by the real Go implementation on
// concrete arguments (strings, strconv, path, fmt, url, base64, regexp, go-digest's
// hashes, encoding/json on mirror types).

import (
	"errors"
	"fmt"
	"go/types"
	"reflect"
	"sort"
	"strings"
)

var errorIface = reflect.TypeOf((*error)(nil)).Elem()

// toNative converts interpreter value v to a host value of reflect type rt.
// Symbolic scalars must have been concretised by the caller.
func (i *interpreter) toNative(v value, rt reflect.Type) reflect.Value {
	if s, ok := v.(sym); ok {
		_ = s
		panic(engineError{"symbolic value reached a native call-out without concretisation"})
	}
	switch rt.Kind() {
	case reflect.Bool:
		return reflect.ValueOf(v.(bool)).Convert(rt)
	case reflect.Int, reflect.Int8, reflect.Int16, reflect.Int32, reflect.Int64:
		return reflect.ValueOf(asInt64(v)).Convert(rt)
	case reflect.Uint, reflect.Uint8, reflect.Uint16, reflect.Uint32, reflect.Uint64, reflect.Uintptr:
		return reflect.ValueOf(uint64(asInt64(v))).Convert(rt)
	case reflect.Float32, reflect.Float64:
		switch f := v.(type) {
		case float64:
			return reflect.ValueOf(f).Convert(rt)
		case float32:
			return reflect.ValueOf(f).Convert(rt)
		}
	case reflect.String:
		return reflect.ValueOf(v.(string)).Convert(rt)
	case reflect.Slice:
		sv := v.([]value)
		if sv == nil {
			return reflect.Zero(rt)
		}
		out := reflect.MakeSlice(rt, len(sv), len(sv))
		for k, e := range sv {
			out.Index(k).Set(i.toNative(e, rt.Elem()))
		}
		return out
	case reflect.Array:
		av := v.(array)
		out := reflect.New(rt).Elem()
		for k, e := range av {
			out.Index(k).Set(i.toNative(e, rt.Elem()))
		}
		return out
	case reflect.Map:
		m := v.(*omap)
		if m == nil {
			return reflect.Zero(rt)
		}
		out := reflect.MakeMapWithSize(rt, m.len())
		for _, e := range m.entries {
			if e.live {
				out.SetMapIndex(i.toNative(e.key, rt.Key()), i.toNative(e.val, rt.Elem()))
			}
		}
		return out
	case reflect.Ptr:
		p := v.(*value)
		if p == nil {
			return reflect.Zero(rt)
		}
		out := reflect.New(rt.Elem())
		out.Elem().Set(i.toNative(*p, rt.Elem()))
		return out
	case reflect.Struct:
		sv := v.(structure)
		out := reflect.New(rt).Elem()
		// mirror structs carry the original field index in a tag; host structs
		// (url.URL) are matched by position, unexported fields stay zero.
		for f := 0; f < rt.NumField(); f++ {
			if idx, ok := mirrorFieldIndex(rt, f); ok {
				out.Field(f).Set(i.toNative(sv[idx], rt.Field(f).Type))
			} else if rt.Field(f).IsExported() {
				out.Field(f).Set(i.toNative(sv[f], rt.Field(f).Type))
			}
		}
		return out
	case reflect.Interface:
		if rt == errorIface {
			iv := v.(iface)
			if iv.t == nil {
				return reflect.Zero(rt)
			}
			return reflect.ValueOf(errors.New(i.errorText(iv))).Convert(rt)
		}
		if rt.NumMethod() == 0 {
			a := i.nativeAny(v)
			if a == nil {
				return reflect.Zero(rt)
			}
			return reflect.ValueOf(a).Convert(rt)
		}
	}
	panic(engineError{fmt.Sprintf("toNative: unsupported conversion of %T to %s", v, rt)})
}

// mirror struct fields carry their original index in the tag key "vhidx".
func mirrorFieldIndex(rt reflect.Type, f int) (int, bool) {
	if s, ok := rt.Field(f).Tag.Lookup("vhidx"); ok {
		var n int
		fmt.Sscanf(s, "%d", &n)
		return n, true
	}
	return 0, false
}

// nativeAny converts a value to a host value for formatting purposes (best effort).
func (i *interpreter) nativeAny(v value) interface{} {
	switch x := v.(type) {
	case iface:
		if x.t == nil {
			return nil
		}
		if types.Implements(x.t, errorInterfaceType()) {
			return errors.New(i.errorText(x))
		}
		if m := i.stringerMethod(x.t); m != nil {
			r := call(i, nil, 0, m, []value{x.v})
			if s, ok := r.(string); ok {
				return strStringer(s)
			}
		}
		return i.nativeAny(x.v)
	case sym:
		return "<symbolic>"
	case bool, int, int8, int16, int32, int64, uint, uint8, uint16, uint32, uint64, uintptr, float32, float64, string:
		return x
	case []value:
		// []byte prints as bytes, everything else as a list
		allBytes := len(x) > 0
		for _, e := range x {
			if _, ok := e.(uint8); !ok {
				allBytes = false
				break
			}
		}
		if allBytes {
			b := make([]byte, len(x))
			for k, e := range x {
				b[k] = e.(uint8)
			}
			return b
		}
		out := make([]interface{}, len(x))
		for k, e := range x {
			out[k] = i.nativeAny(e)
		}
		return out
	case *value:
		if x == nil {
			return nil
		}
		return fmt.Sprintf("%p", x)
	}
	return toString(v)
}

type strStringer string

func (s strStringer) String() string { return string(s) }

var errIfaceT *types.Interface

func errorInterfaceType() *types.Interface {
	if errIfaceT == nil {
		errIfaceT = types.Universe.Lookup("error").Type().Underlying().(*types.Interface)
	}
	return errIfaceT
}

func (i *interpreter) stringerMethod(t types.Type) value {
	ms := i.prog.MethodSets.MethodSet(t)
	for k := 0; k < ms.Len(); k++ {
		sel := ms.At(k)
		if sel.Obj().Name() == "String" {
			sig := sel.Type().(*types.Signature)
			if sig.Params().Len() == 0 && sig.Results().Len() == 1 {
				if b, ok := sig.Results().At(0).Type().(*types.Basic); ok && b.Kind() == types.String {
					if fn := i.prog.MethodValue(sel); fn != nil {
						return fn
					}
				}
			}
		}
	}
	return nil
}

// errorText calls err.Error() inside the interpreter.
func (i *interpreter) errorText(e iface) string {
	if e.t == nil {
		return "<nil>"
	}
	if no, ok := e.v.(*nativeObj); ok {
		if ne, ok := no.v.(error); ok {
			return ne.Error()
		}
	}
	ms := i.prog.MethodSets.MethodSet(e.t)
	sel := ms.Lookup(nil, "Error")
	if sel == nil {
		return "<error without Error method>"
	}
	fn := i.prog.MethodValue(sel)
	if fn == nil {
		return "<abstract error>"
	}
	r := call(i, nil, 0, fn, []value{e.v})
	if s, ok := r.(string); ok {
		return s
	}
	return "<symbolic error text>"
}

// fromNative converts host value rv to an interpreter value of static type t.
func (i *interpreter) fromNative(rv reflect.Value, t types.Type) value {
	switch ut := t.Underlying().(type) {
	case *types.Basic:
		switch ut.Kind() {
		case types.Bool:
			return rv.Bool()
		case types.Int:
			return int(rv.Int())
		case types.Int8:
			return int8(rv.Int())
		case types.Int16:
			return int16(rv.Int())
		case types.Int32:
			return int32(rv.Int())
		case types.Int64:
			return int64(rv.Int())
		case types.Uint:
			return uint(rv.Uint())
		case types.Uint8:
			return uint8(rv.Uint())
		case types.Uint16:
			return uint16(rv.Uint())
		case types.Uint32:
			return uint32(rv.Uint())
		case types.Uint64:
			return uint64(rv.Uint())
		case types.Uintptr:
			return uintptr(rv.Uint())
		case types.Float32:
			return float32(rv.Float())
		case types.Float64:
			return rv.Float()
		case types.String:
			return rv.String()
		}
	case *types.Slice:
		if rv.IsNil() {
			return []value(nil)
		}
		out := make([]value, rv.Len())
		for k := range out {
			out[k] = i.fromNative(rv.Index(k), ut.Elem())
		}
		return out
	case *types.Array:
		out := make(array, rv.Len())
		for k := range out {
			out[k] = i.fromNative(rv.Index(k), ut.Elem())
		}
		return out
	case *types.Map:
		if rv.IsNil() {
			return (*omap)(nil)
		}
		m := makeMap(ut.Key(), 0).(*omap)
		keys := rv.MapKeys()
		sort.Slice(keys, func(a, b int) bool { return fmt.Sprint(keys[a].Interface()) < fmt.Sprint(keys[b].Interface()) })
		for _, k := range keys {
			m.insert(i.fromNative(k, ut.Key()), i.fromNative(rv.MapIndex(k), ut.Elem()))
		}
		return m
	case *types.Pointer:
		if rv.IsNil() {
			return (*value)(nil)
		}
		cell := i.fromNative(rv.Elem(), ut.Elem())
		return &cell
	case *types.Struct:
		out := zero(t).(structure)
		rt := rv.Type()
		for f := 0; f < rt.NumField(); f++ {
			idx := f
			if k, ok := mirrorFieldIndex(rt, f); ok {
				idx = k
			} else if !rt.Field(f).IsExported() {
				continue
			}
			out[idx] = i.fromNative(rv.Field(f), ut.Field(idx).Type())
		}
		return out
	case *types.Interface:
		if rv.Kind() == reflect.Interface && rv.IsNil() {
			return iface{}
		}
		if types.Identical(t, types.Universe.Lookup("error").Type()) {
			return i.makeError(rv.Interface().(error).Error())
		}
	}
	panic(engineError{fmt.Sprintf("fromNative: unsupported conversion of %s to %s", rv.Type(), t)})
}

// makeError builds an interpreter-side *errors.errorString.
func (i *interpreter) makeError(msg string) value {
	cell := value(structure{msg})
	return iface{t: i.errorStringPtr, v: &cell}
}

// bytesOf extracts a host []byte from an interpreter []byte.
func bytesOf(v value) []byte {
	sv := v.([]value)
	if sv == nil {
		return nil
	}
	b := make([]byte, len(sv))
	for k, e := range sv {
		b[k] = e.(uint8)
	}
	return b
}

func valueOfBytes(b []byte) value {
	if b == nil {
		return []value(nil)
	}
	out := make([]value, len(b))
	for k, e := range b {
		out[k] = e
	}
	return out
}

// ---- JSON mirror types ----

// mirrorType builds a host struct type with the exported fields and tags of t, so the
// real encoding/json produces and consumes exactly what it would for the real type.
func (i *interpreter) mirrorType(t types.Type, depth int) reflect.Type {
	if depth > 12 {
		panic(engineError{"mirrorType: recursive type " + t.String()})
	}
	if named, ok := t.(*types.Named); ok {
		// custom marshalers would be lost in the mirror
		for _, m := range []string{"MarshalJSON", "UnmarshalJSON", "MarshalText", "UnmarshalText"} {
			if obj, _, _ := types.LookupFieldOrMethod(types.NewPointer(named), true, named.Obj().Pkg(), m); obj != nil {
				if _, isFunc := obj.(*types.Func); isFunc {
					panic(engineError{"mirrorType: " + t.String() + " has custom " + m})
				}
			}
		}
	}
	switch ut := t.Underlying().(type) {
	case *types.Basic:
		switch ut.Kind() {
		case types.Bool:
			return reflect.TypeOf(false)
		case types.Int:
			return reflect.TypeOf(int(0))
		case types.Int8:
			return reflect.TypeOf(int8(0))
		case types.Int16:
			return reflect.TypeOf(int16(0))
		case types.Int32:
			return reflect.TypeOf(int32(0))
		case types.Int64:
			return reflect.TypeOf(int64(0))
		case types.Uint:
			return reflect.TypeOf(uint(0))
		case types.Uint8:
			return reflect.TypeOf(uint8(0))
		case types.Uint16:
			return reflect.TypeOf(uint16(0))
		case types.Uint32:
			return reflect.TypeOf(uint32(0))
		case types.Uint64:
			return reflect.TypeOf(uint64(0))
		case types.Float32:
			return reflect.TypeOf(float32(0))
		case types.Float64:
			return reflect.TypeOf(float64(0))
		case types.String:
			return reflect.TypeOf("")
		}
	case *types.Slice:
		return reflect.SliceOf(i.mirrorType(ut.Elem(), depth+1))
	case *types.Array:
		return reflect.ArrayOf(int(ut.Len()), i.mirrorType(ut.Elem(), depth+1))
	case *types.Map:
		return reflect.MapOf(i.mirrorType(ut.Key(), depth+1), i.mirrorType(ut.Elem(), depth+1))
	case *types.Pointer:
		return reflect.PtrTo(i.mirrorType(ut.Elem(), depth+1))
	case *types.Struct:
		var fields []reflect.StructField
		for f := 0; f < ut.NumFields(); f++ {
			fld := ut.Field(f)
			if !fld.Exported() {
				continue
			}
			if fld.Embedded() {
				panic(engineError{"mirrorType: embedded field in " + t.String()})
			}
			tag := ut.Tag(f)
			if tag != "" {
				tag += " "
			}
			tag += fmt.Sprintf(`vhidx:"%d"`, f)
			fields = append(fields, reflect.StructField{
				Name: fld.Name(),
				Type: i.mirrorType(fld.Type(), depth+1),
				Tag:  reflect.StructTag(tag),
			})
		}
		return reflect.StructOf(fields)
	case *types.Interface:
		if ut.NumMethods() == 0 {
			return reflect.TypeOf((*interface{})(nil)).Elem()
		}
	}
	panic(engineError{"mirrorType: unsupported type " + t.String()})
}

// hasSym reports whether v contains a symbolic scalar.
func hasSym(v value, depth int) bool {
	if depth > 8 {
		return false
	}
	switch x := v.(type) {
	case sym:
		return true
	case structure:
		for _, e := range x {
			if hasSym(e, depth+1) {
				return true
			}
		}
	case array:
		for _, e := range x {
			if hasSym(e, depth+1) {
				return true
			}
		}
	case []value:
		for _, e := range x {
			if hasSym(e, depth+1) {
				return true
			}
		}
	case iface:
		return hasSym(x.v, depth+1)
	case *value:
		if x != nil {
			return hasSym(*x, depth+1)
		}
	case *omap:
		if x != nil {
			for _, e := range x.entries {
				if e.live && hasSym(e.val, depth+1) {
					return true
				}
			}
		}
	}
	return false
}

// concretizeDeep replaces symbolic scalars inside v (for native call-outs).
func (i *interpreter) concretizeDeep(v value, t types.Type, where string) value {
	if !hasSym(v, 0) {
		return v
	}
	switch x := v.(type) {
	case sym:
		return i.concretizeValue(x, t, where)
	case structure:
		st := t.Underlying().(*types.Struct)
		out := make(structure, len(x))
		for k, e := range x {
			out[k] = i.concretizeDeep(e, st.Field(k).Type(), where)
		}
		return out
	case []value:
		et := t.Underlying().(*types.Slice).Elem()
		out := make([]value, len(x))
		for k, e := range x {
			out[k] = i.concretizeDeep(e, et, where)
		}
		return out
	case iface:
		return iface{t: x.t, v: i.concretizeDeep(x.v, x.t, where)}
	case *value:
		nv := i.concretizeDeep(*x, mustDeref(t), where)
		return &nv
	}
	panic(engineError{fmt.Sprintf("concretizeDeep: symbolic value inside %T at %s", v, where)})
}

func typeString(t types.Type) string {
	return strings.ReplaceAll(t.String(), "github.com/olareg/olareg/", "")
}
