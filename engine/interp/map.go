package interp

// Insertion-ordered map used for every Go map of the interpreted program, so that
// re-execution of a path is deterministic.  Iteration order is a fork point (see
// rangeIter); keys are always concrete (symbolic keys are concretised by the caller).

import (
	"fmt"
	"go/types"
	"strings"
)

type omapEntry struct {
	key, val value
	live     bool
}

type omap struct {
	keyType types.Type
	idx     map[interface{}]int
	entries []omapEntry
	n       int
}

func makeMap(kt types.Type, reserve int64) value {
	return &omap{keyType: kt, idx: make(map[interface{}]int)}
}

type ifaceKey struct {
	t string
	k interface{}
}

// keyOf returns a comparable Go value that identifies the Go-level key v.
func keyOf(v value) interface{} {
	switch v := v.(type) {
	case bool, int, int8, int16, int32, int64, uint, uint8, uint16, uint32, uint64, uintptr,
		float32, float64, complex64, complex128, string, *value, *vchan:
		return v
	case iface:
		if v.t == nil {
			return ifaceKey{}
		}
		return ifaceKey{t: v.t.String(), k: keyOf(v.v)}
	case structure:
		var sb strings.Builder
		sb.WriteString("s{")
		for _, f := range v {
			fmt.Fprintf(&sb, "%T:%v;", keyOf(f), keyOf(f))
		}
		sb.WriteString("}")
		return sb.String()
	case array:
		var sb strings.Builder
		sb.WriteString("a[")
		for _, f := range v {
			fmt.Fprintf(&sb, "%T:%v;", keyOf(f), keyOf(f))
		}
		sb.WriteString("]")
		return sb.String()
	case sym:
		panic(engineError{"symbolic value used as map key without concretisation"})
	}
	panic(engineError{fmt.Sprintf("unhashable map key %T", v)})
}

func (m *omap) lookup(k value) (value, bool) {
	if m == nil {
		return nil, false
	}
	if i, ok := m.idx[keyOf(k)]; ok {
		return m.entries[i].val, true
	}
	return nil, false
}

func (m *omap) insert(k, v value) {
	if m == nil {
		panic(targetRuntimeError("assignment to entry in nil map"))
	}
	kk := keyOf(k)
	if i, ok := m.idx[kk]; ok {
		m.entries[i].val = v
		return
	}
	m.idx[kk] = len(m.entries)
	m.entries = append(m.entries, omapEntry{key: k, val: v, live: true})
	m.n++
}

func (m *omap) delete(k value) {
	if m == nil {
		return
	}
	kk := keyOf(k)
	if i, ok := m.idx[kk]; ok {
		m.entries[i] = omapEntry{}
		delete(m.idx, kk)
		m.n--
		if len(m.entries) > 32 && m.n < len(m.entries)/2 {
			m.compact()
		}
	}
}

func (m *omap) compact() {
	ne := make([]omapEntry, 0, m.n)
	for _, e := range m.entries {
		if e.live {
			m.idx[keyOf(e.key)] = len(ne)
			ne = append(ne, e)
		}
	}
	m.entries = ne
}

func (m *omap) len() int {
	if m == nil {
		return 0
	}
	return m.n
}

// liveKeys returns the keys in insertion order.
func (m *omap) liveKeys() []value {
	if m == nil {
		return nil
	}
	ks := make([]value, 0, m.n)
	for _, e := range m.entries {
		if e.live {
			ks = append(ks, e.key)
		}
	}
	return ks
}

// omapIter iterates a snapshot of the keys; keys deleted before being reached are
// skipped (as Go guarantees), keys added during iteration are not visited (allowed).
type omapIter struct {
	m    *omap
	keys []value
	pos  int
}

func (it *omapIter) next() tuple {
	for it.pos < len(it.keys) {
		k := it.keys[it.pos]
		it.pos++
		if v, ok := it.m.lookup(k); ok {
			return tuple{true, k, v}
		}
	}
	return tuple{false, nil, nil}
}
