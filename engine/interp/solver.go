package interp

// Driver for one long-lived SMT solver process (z3 -in, z3-new -in, cvc5 --incremental)
// speaking SMT-LIB2 over a pipe.  Any "(error" line, "unknown" or timeout is reported
// as resUnknown and makes the harness inconclusive.

import (
	"bufio"
	"fmt"
	"io"
	"os"
	"os/exec"
	"strconv"
	"strings"
	"time"
)

type solverResult int

const (
	resUnsat solverResult = iota
	resSat
	resUnknown
)

type SolverStats struct {
	Queries  int
	Sat      int
	Unsat    int
	Unknown  int
	Errors   int
	Duration time.Duration
	ResetDuration time.Duration
}

type Solver struct {
	name    string
	cmd     *exec.Cmd
	in      io.WriteCloser
	out     *bufio.Reader
	seq     int
	stats   SolverStats
	log     io.Writer // optional query log (thorough tier cross-check)
	timeout int       // ms per query
	dead    bool
	scoped  bool
	pathsSinceSync int
	keepAsserts bool
	pathAsserts []string
}

// NewSolver starts a solver. kind: "z3", "z3-new", "cvc5".
func NewSolver(kind string, timeoutMs int, log io.Writer) (*Solver, error) {
	var cmd *exec.Cmd
	switch kind {
	case "z3", "z3-new":
		cmd = exec.Command(kind, "-in", "-smt2")
	case "cvc5":
		cmd = exec.Command("cvc5", "--incremental", "--lang=smt2", "--fp-exp", "--produce-models", fmt.Sprintf("--tlimit-per=%d", timeoutMs))
	case "cvc5-int":
		// bit-vector arithmetic translated to integers with exact mod-2^k semantics:
		// decides linear comparisons over 64-bit words far faster than bit-blasting
		cmd = exec.Command("cvc5", "--incremental", "--lang=smt2", "--produce-models", "--solve-bv-as-int=sum", fmt.Sprintf("--tlimit-per=%d", timeoutMs))
	default:
		return nil, fmt.Errorf("unknown solver %s", kind)
	}
	in, err := cmd.StdinPipe()
	if err != nil {
		return nil, err
	}
	out, err := cmd.StdoutPipe()
	if err != nil {
		return nil, err
	}
	cmd.Stderr = os.Stderr
	if err := cmd.Start(); err != nil {
		return nil, err
	}
	s := &Solver{name: kind, cmd: cmd, in: in, out: bufio.NewReaderSize(out, 1<<16), log: log, timeout: timeoutMs}
	s.preamble()
	return s, nil
}

func (s *Solver) preamble() {
	if !strings.HasPrefix(s.name, "cvc5") {
		s.send(fmt.Sprintf("(set-option :timeout %d)", s.timeout))
		s.send("(set-option :produce-models true)")
	} else {
		s.send("(set-logic ALL)")
	}
}

func (s *Solver) send(cmd string) {
	if s.dead {
		return
	}
	if s.log != nil {
		fmt.Fprintln(s.log, cmd)
	}
	if _, err := io.WriteString(s.in, cmd+"\n"); err != nil {
		s.dead = true
	}
}

// sync sends an echo marker and returns all output lines produced before it.
func (s *Solver) sync() []string {
	s.seq++
	marker := "<<" + strconv.Itoa(s.seq) + ">>"
	// log-free: the marker is protocol noise
	if !s.dead {
		if _, err := io.WriteString(s.in, "(echo \""+marker+"\")\n"); err != nil {
			s.dead = true
		}
	}
	var lines []string
	for !s.dead {
		line, err := s.out.ReadString('\n')
		if err != nil {
			s.dead = true
			break
		}
		line = strings.TrimSpace(line)
		if strings.Trim(line, "\"") == marker {
			break
		}
		if line != "" {
			lines = append(lines, line)
		}
	}
	return lines
}

// Reset starts a new path: everything declared and asserted by the previous path is
// dropped by popping its scope (much cheaper than (reset)).
func (s *Solver) Reset() {
	start := time.Now()
	if s.scoped {
		s.send("(pop 1)")
	}
	s.send("(push 1)")
	s.scoped = true
	s.pathAsserts = s.pathAsserts[:0]
	s.keepAsserts = os.Getenv("GOSYM_SLOWQ") != ""
	s.pathsSinceSync++
	if s.pathsSinceSync >= 64 {
		// keep the pipe from filling up with unread output and detect errors
		s.pathsSinceSync = 0
		if lines := s.sync(); hasError(lines) {
			s.stats.Errors++
		}
	}
	s.stats.ResetDuration += time.Since(start)
}

func hasError(lines []string) bool {
	for _, l := range lines {
		if strings.HasPrefix(l, "(error") {
			return true
		}
	}
	return false
}

func (s *Solver) Declare(v *Term) {
	s.send(fmt.Sprintf("(declare-const %s %s)", v.Name, v.S))
}

func (s *Solver) Assert(t *Term) {
	if s.keepAsserts {
		s.pathAsserts = append(s.pathAsserts, t.String())
	}
	s.send("(assert " + t.String() + ")")
}

// Check decides satisfiability of the asserted stack plus extra.
// If sat and vars is non-nil the model of vars is returned (bits; Bool as 0/1).
func (s *Solver) Check(extra []*Term, vars []*Term) (solverResult, map[string]uint64) {
	start := time.Now()
	s.stats.Queries++
	s.send("(push 1)")
	for _, e := range extra {
		s.send("(assert " + e.String() + ")")
	}
	s.send("(check-sat)")
	lines := s.sync()
	res := resUnknown
	if !hasError(lines) && len(lines) > 0 {
		switch lines[len(lines)-1] {
		case "sat":
			res = resSat
		case "unsat":
			res = resUnsat
		}
	}
	if hasError(lines) {
		s.stats.Errors++
		fmt.Fprintf(os.Stderr, "solver error: %v\n", lines)
	}
	var model map[string]uint64
	if res == resSat && len(vars) > 0 {
		var sb strings.Builder
		sb.WriteString("(get-value (")
		for _, v := range vars {
			sb.WriteString(v.Name)
			sb.WriteByte(' ')
		}
		sb.WriteString("))")
		s.send(sb.String())
		ml := s.sync()
		if hasError(ml) {
			s.stats.Errors++
			res = resUnknown
		} else {
			model = parseModel(strings.Join(ml, " "))
		}
	}
	s.send("(pop 1)")
	switch res {
	case resSat:
		s.stats.Sat++
	case resUnsat:
		s.stats.Unsat++
	default:
		s.stats.Unknown++
	}
	s.stats.Duration += time.Since(start)
	if d := time.Since(start); d > 2*time.Second && os.Getenv("GOSYM_SLOWQ") != "" {
		fmt.Fprintf(os.Stderr, "SLOW QUERY %.1fs result=%d\n", d.Seconds(), res)
		for _, a := range s.pathAsserts {
			fmt.Fprintln(os.Stderr, "  (assert "+a+")")
		}
		for _, e := range extra {
			fmt.Fprintln(os.Stderr, "  EXTRA (assert "+e.String()+")")
		}
	}
	return res, model
}

// parseModel parses "((v1 #x0a) (v2 true) (v3 #b101))".
func parseModel(s string) map[string]uint64 {
	m := map[string]uint64{}
	toks := strings.Fields(strings.NewReplacer("(", " ( ", ")", " ) ").Replace(s))
	// expect: ( ( name val ) ( name val ) ... ) ; val may itself be "( _ bvN W )"
	i := 0
	for i < len(toks) {
		if toks[i] == "(" && i+2 < len(toks) && toks[i+1] != "(" {
			name := toks[i+1]
			j := i + 2
			var val uint64
			ok := false
			if toks[j] == "(" {
				// ( _ bv123 64 )
				if j+2 < len(toks) && toks[j+1] == "_" && strings.HasPrefix(toks[j+2], "bv") {
					val, _ = strconv.ParseUint(toks[j+2][2:], 10, 64)
					ok = true
				}
				depth := 0
				for ; j < len(toks); j++ {
					if toks[j] == "(" {
						depth++
					} else if toks[j] == ")" {
						depth--
						if depth == 0 {
							j++
							break
						}
					}
				}
			} else {
				v := toks[j]
				switch {
				case v == "true":
					val, ok = 1, true
				case v == "false":
					val, ok = 0, true
				case strings.HasPrefix(v, "#x"):
					val, _ = strconv.ParseUint(v[2:], 16, 64)
					ok = true
				case strings.HasPrefix(v, "#b"):
					val, _ = strconv.ParseUint(v[2:], 2, 64)
					ok = true
				}
				j++
			}
			if ok {
				m[name] = val
			}
			i = j
			continue
		}
		i++
	}
	return m
}

func (s *Solver) Close() {
	if s.cmd != nil {
		s.send("(exit)")
		s.in.Close()
		done := make(chan struct{})
		go func() { s.cmd.Wait(); close(done) }()
		select {
		case <-done:
		case <-time.After(2 * time.Second):
			s.cmd.Process.Kill()
		}
	}
}
