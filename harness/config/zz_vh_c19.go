package config

// C19 (defaults): every unset field takes the documented default and explicitly set
// values are never overridden.

import (
	"time"

	"github.com/olareg/olareg/internal/verifenv/vh"
)

// vhTri: nil, or a pointer to an arbitrary (symbolic) value.
func vhTri(name string) *bool {
	if vh.Bool(name + "_set") {
		b := vh.Bool(name)
		return &b
	}
	return nil
}

func vhChkBool(in *bool, out *bool, def bool, id string) {
	vh.Assert(out != nil, id)
	if in != nil {
		vh.Assert(*out == *in, id)
	} else {
		vh.Assert(*out == def, id)
	}
}

// VH_C19_Defaults: SetDefaults on an arbitrary configuration.
func VH_C19_Defaults() {
	var c Config
	c.API.PushEnabled = vhTri("push")
	c.API.DeleteEnabled = vhTri("delete")
	c.API.Blob.DeleteEnabled = vhTri("blobDelete")
	c.API.Referrer.Enabled = vhTri("referrer")
	c.Storage.ReadOnly = vhTri("readOnly")
	if vh.Param("FULL", 0) == 1 {
		c.Storage.GC.Untagged = vhTri("untagged")
		c.Storage.GC.EmptyRepo = vhTri("emptyRepo")
		c.Storage.GC.ReferrersDangling = vhTri("dangling")
		c.Storage.GC.ReferrersWithSubj = vhTri("withSubj")
	} else if vh.Bool("gc_set") {
		// quick tier: the four collection switches are set or unset together
		a, b, d, e := vh.Bool("untagged"), vh.Bool("emptyRepo"), vh.Bool("dangling"), vh.Bool("withSubj")
		c.Storage.GC.Untagged, c.Storage.GC.EmptyRepo, c.Storage.GC.ReferrersDangling, c.Storage.GC.ReferrersWithSubj = &a, &b, &d, &e
	}
	c.API.Manifest.Limit = vh.Int64("manifestLimit")
	c.API.Referrer.Limit = vh.Int64("referrerLimit")
	c.API.Referrer.PageCacheExpire = time.Duration(vh.Int64("pageCacheExpire"))
	c.API.Referrer.PageCacheLimit = vh.Int("pageCacheLimit")
	c.API.RateLimit = vh.Int("rateLimit")
	c.Storage.GC.Frequency = time.Duration(vh.Int64("gcFrequency"))
	c.Storage.GC.GracePeriod = time.Duration(vh.Int64("gcGrace"))
	c.Storage.GC.RepoUploadMax = vh.Int("uploadMax")
	c.Storage.StoreType = Store(vh.Int("storeType"))
	c.Storage.RootDir = vh.Str("rootDir", "", "x")
	c.HTTP.Addr = vh.Str("addr", "", ":5000")
	c.API.Warnings = []string{"w"}
	in := c
	c.SetDefaults()
	vhChkBool(in.API.PushEnabled, c.API.PushEnabled, true, "C19.default-push")
	vhChkBool(in.API.DeleteEnabled, c.API.DeleteEnabled, false, "C19.default-delete")
	vhChkBool(in.API.Blob.DeleteEnabled, c.API.Blob.DeleteEnabled, false, "C19.default-blob-delete")
	vhChkBool(in.API.Referrer.Enabled, c.API.Referrer.Enabled, true, "C19.default-referrer")
	vhChkBool(in.Storage.ReadOnly, c.Storage.ReadOnly, false, "C19.default-readonly")
	vhChkBool(in.Storage.GC.Untagged, c.Storage.GC.Untagged, false, "C19.default-gc-untagged")
	vhChkBool(in.Storage.GC.EmptyRepo, c.Storage.GC.EmptyRepo, true, "C19.default-gc-emptyrepo")
	vhChkBool(in.Storage.GC.ReferrersDangling, c.Storage.GC.ReferrersDangling, false, "C19.default-gc-dangling")
	vhChkBool(in.Storage.GC.ReferrersWithSubj, c.Storage.GC.ReferrersWithSubj, true, "C19.default-gc-withsubj")
	// numeric fields: a meaningful value is kept, zero (<=0 for the manifest limit) gets the default
	vh.Assert(vh.Implies(in.API.Manifest.Limit > 0, c.API.Manifest.Limit == in.API.Manifest.Limit), "C19.manifest-limit-kept")
	vh.Assert(vh.Implies(in.API.Manifest.Limit <= 0, c.API.Manifest.Limit == 8*1024*1024), "C19.manifest-limit-default")
	vh.Assert(vh.Implies(in.API.Referrer.Limit != 0, c.API.Referrer.Limit == in.API.Referrer.Limit), "C19.referrer-limit-kept")
	vh.Assert(vh.Implies(in.API.Referrer.Limit == 0, c.API.Referrer.Limit == 4*1024*1024), "C19.referrer-limit-default")
	vh.Assert(vh.Implies(in.API.Referrer.PageCacheExpire != 0, c.API.Referrer.PageCacheExpire == in.API.Referrer.PageCacheExpire), "C19.pagecache-expire-kept")
	vh.Assert(vh.Implies(in.API.Referrer.PageCacheExpire == 0, c.API.Referrer.PageCacheExpire == 5*time.Minute), "C19.pagecache-expire-default")
	vh.Assert(vh.Implies(in.API.Referrer.PageCacheLimit != 0, c.API.Referrer.PageCacheLimit == in.API.Referrer.PageCacheLimit), "C19.pagecache-limit-kept")
	vh.Assert(vh.Implies(in.API.Referrer.PageCacheLimit == 0, c.API.Referrer.PageCacheLimit == 1000), "C19.pagecache-limit-default")
	vh.Assert(vh.Implies(in.Storage.GC.Frequency != 0, c.Storage.GC.Frequency == in.Storage.GC.Frequency), "C19.gc-frequency-kept")
	vh.Assert(vh.Implies(in.Storage.GC.Frequency == 0, c.Storage.GC.Frequency == 15*time.Minute), "C19.gc-frequency-default")
	vh.Assert(vh.Implies(in.Storage.GC.GracePeriod != 0, c.Storage.GC.GracePeriod == in.Storage.GC.GracePeriod), "C19.gc-grace-kept")
	vh.Assert(vh.Implies(in.Storage.GC.GracePeriod == 0, c.Storage.GC.GracePeriod == time.Hour), "C19.gc-grace-default")
	vh.Assert(vh.Implies(in.Storage.GC.RepoUploadMax != 0, c.Storage.GC.RepoUploadMax == in.Storage.GC.RepoUploadMax), "C19.upload-max-kept")
	vh.Assert(vh.Implies(in.Storage.GC.RepoUploadMax == 0, c.Storage.GC.RepoUploadMax == 1000), "C19.upload-max-default")
	vh.Assert(c.API.RateLimit == in.API.RateLimit, "C19.ratelimit-untouched")
	vh.Assert(c.Storage.StoreType == in.Storage.StoreType, "C19.storetype-untouched")
	vh.Assert(c.HTTP.Addr == in.HTTP.Addr && len(c.API.Warnings) == 1, "C19.other-fields-untouched")
	if in.Storage.RootDir != "" {
		vh.Assert(c.Storage.RootDir == in.Storage.RootDir, "C19.rootdir-kept")
	} else if vh.ConcreteBool(in.Storage.StoreType == StoreDir) {
		vh.Assert(c.Storage.RootDir == ".", "C19.rootdir-default")
		vh.Cover("C19.rootdir-default")
	} else {
		vh.Assert(c.Storage.RootDir == "", "C19.rootdir-kept")
	}
	// idempotent
	once := c
	c.SetDefaults()
	vh.Assert(*c.API.PushEnabled == *once.API.PushEnabled && *c.API.DeleteEnabled == *once.API.DeleteEnabled &&
		c.API.Manifest.Limit == once.API.Manifest.Limit && c.API.Referrer.Limit == once.API.Referrer.Limit &&
		c.Storage.GC.Frequency == once.Storage.GC.Frequency && c.Storage.GC.GracePeriod == once.Storage.GC.GracePeriod &&
		c.Storage.GC.RepoUploadMax == once.Storage.GC.RepoUploadMax && c.Storage.RootDir == once.Storage.RootDir &&
		c.API.Referrer.PageCacheExpire == once.API.Referrer.PageCacheExpire && c.API.Referrer.PageCacheLimit == once.API.Referrer.PageCacheLimit, "C19.setdefaults-idempotent")
	vh.Cover("C19.defaults-end")
}
