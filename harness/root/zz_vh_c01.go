package olareg

// C01 (request level): served content always hashes to the digest it is served under;
// a push whose declared digest does not match the bytes received is refused with 4xx.

import (
	"strconv"

	digest "github.com/opencontainers/go-digest"

	"github.com/olareg/olareg/internal/verifenv/vh"
	"github.com/olareg/olareg/types"
)

var vhC01Contents = [][]byte{{}, []byte("x"), []byte("xy"), []byte("y")}

// vhDeclared: the universe of declared digests for content c.
func vhDeclared(c []byte, k int) (digest.Digest, bool) {
	switch k {
	case 0:
		return digest.SHA256.FromBytes(c), true
	case 1:
		return digest.SHA384.FromBytes(c), true
	case 2:
		return digest.SHA512.FromBytes(c), true
	case 3:
		return digest.SHA256.FromBytes(append([]byte("not"), c...)), false
	case 4:
		return digest.SHA512.FromBytes(append([]byte("not"), c...)), false
	case 5:
		return digest.Digest(vhBadDigest), false
	case 6:
		return digest.Digest(vhMd5Digest), false
	}
	return "", false
}

// vhServedHashes: every digest of the universe is either absent or served with bytes
// that hash to it; same for manifests by digest and by tag.
func vhServedHashes(s *Server, repos []string, tags []string, extra [][]byte) {
	var all [][]byte
	all = append(all, vhC01Contents...)
	all = append(all, extra...)
	for _, repo := range repos {
		for _, c := range all {
			for k := 0; k < 5; k++ {
				d, _ := vhDeclared(c, k)
				g := vhGetBlob(s, repo, d)
				vh.Assert(!g.Panicked, "C01.nopanic")
				if g.Status() == 200 {
					vh.Assert(d.Algorithm().FromBytes(g.Body) == d, "C01.blob-served-hashes-to-digest")
					vh.Assert(g.HeaderMap.Get("Docker-Content-Digest") == d.String(), "C01.blob-digest-header")
					vh.Cover("C01.blob-served")
				} else {
					vh.Assert(g.Status() == 404, "C01.blob-absent")
				}
				m := vhGetManifest(s, repo, d.String())
				if m.Status() == 200 {
					vh.Assert(d.Algorithm().FromBytes(m.Body) == d, "C01.manifest-served-hashes-to-digest")
					vh.Cover("C01.manifest-served")
				}
			}
		}
		for _, t := range tags {
			m := vhGetManifest(s, repo, t)
			if m.Status() == 200 {
				rd, err := digest.Parse(m.HeaderMap.Get("Docker-Content-Digest"))
				vh.Assert(err == nil && rd.Algorithm().FromBytes(m.Body) == rd, "C01.tag-served-hashes-to-reported-digest")
				vh.Cover("C01.tag-served")
			}
		}
	}
}

// VH_C01_Upload: one upload through every protocol with any declared digest.
func VH_C01_Upload() {
	vhReset()
	s := New(vhConf(vhStore("dir")))
	// prefix: blob "y" in b (mount source), blob "x" already in a or not, an open session
	vhPushBlob(s, "b", []byte("y"))
	if vh.Bool("xPresent") {
		vhPushBlob(s, "a", []byte("x"))
	}
	c := vhC01Contents[vh.Choice("content", 3)]
	dk := vh.Choice("declared", 7)
	d, match := vhDeclared(c, dk)
	q := vhQ()
	if al := vh.Choice("algoParam", 4); al > 0 {
		q.Set("digest-algorithm", []string{"", "sha256", "sha512", "bogus"}[al])
	}
	proto := vh.Choice("proto", 4)
	vh.Tag("proto", strconv.Itoa(proto))
	final := 0
	switch proto {
	case 0: // monolithic POST
		q.Set("digest", d.String())
		r := vhDo(s, "POST", "/v2/a/blobs/uploads/", q, nil, c)
		final = r.Status()
	case 1: // POST then PUT
		r := vhDo(s, "POST", "/v2/a/blobs/uploads/", q, nil, nil)
		if r.Status() != 202 {
			vh.Assert(r.Status() >= 400 && r.Status() < 500, "C01.post-refused-4xx")
			final = r.Status()
			break
		}
		id := vhSessionID(r)
		p := vhDo(s, "PUT", "/v2/a/blobs/uploads/"+id, vhQ("digest", d.String(), "state", vhStateToken(0)), nil, c)
		final = p.Status()
	case 2: // POST, PATCH first part, PUT the rest (any split)
		r := vhDo(s, "POST", "/v2/a/blobs/uploads/", q, nil, nil)
		if r.Status() != 202 {
			final = r.Status()
			break
		}
		id := vhSessionID(r)
		split := vh.Choice("split", len(c)+1)
		p := vhDo(s, "PATCH", "/v2/a/blobs/uploads/"+id, vhQ("state", vhStateToken(0)), nil, c[:split])
		vh.Assert(p.Status() == 202, "C01.patch")
		f := vhDo(s, "PUT", "/v2/a/blobs/uploads/"+id, vhQ("digest", d.String(), "state", vhStateToken(int64(split))), nil, c[split:])
		final = f.Status()
		vh.Cover("C01.chunked")
	case 3: // cross-repository mount of d from b
		q.Set("mount", d.String())
		q.Set("from", "b")
		r := vhDo(s, "POST", "/v2/a/blobs/uploads/", q, nil, nil)
		final = r.Status()
		if final == 201 {
			// mounted (or already present): must be retrievable with the right bytes
			g := vhGetBlob(s, "a", d)
			vh.Assert(g.Status() == 200 && d.Algorithm().FromBytes(g.Body) == d, "C01.mount-content")
			vh.Cover("C01.mounted")
		}
		vhServedHashes(s, []string{"a", "b"}, nil, nil)
		return
	}
	vh.Assert(final < 500, "C01.no-5xx")
	if final == 201 {
		vh.Assert(match, "C01.mismatching-digest-acknowledged")
		g := vhGetBlob(s, "a", d)
		vh.Assert(g.Status() == 200 && vhBytesEq(g.Body, c), "C01.acknowledged-readable")
		vh.Cover("C01.acknowledged")
	} else if !match {
		vh.Assert(final >= 400 && final < 500, "C01.mismatch-refused-4xx")
		vh.Cover("C01.refused")
	}
	vhServedHashes(s, []string{"a", "b"}, nil, nil)
	vh.Cover("C01.upload-end")
}

// VH_C01_Manifest: manifest push by tag, by digest, with ?digest=, every algorithm.
func VH_C01_Manifest() {
	vhReset()
	s := New(vhConf(vhStore("dir")))
	img1, img2 := vhTwoImages(s, "a")
	body := img1
	ref := "t1"
	refMatch := true
	switch vh.Choice("ref", 6) {
	case 1:
		ref = digest.SHA256.FromBytes(body).String()
	case 2:
		ref = digest.SHA512.FromBytes(body).String()
	case 3:
		ref = digest.SHA384.FromBytes(body).String()
	case 4:
		ref = digest.SHA256.FromBytes(img2).String()
		refMatch = false
	case 5:
		ref = digest.SHA512.FromBytes(img2).String()
		refMatch = false
	}
	q := vhQ()
	qMatch := true
	switch vh.Choice("qdigest", 5) {
	case 1:
		q.Set("digest", digest.SHA256.FromBytes(body).String())
	case 2:
		q.Set("digest", digest.SHA512.FromBytes(body).String())
	case 3:
		q.Set("digest", digest.SHA256.FromBytes(img2).String())
		qMatch = false
	case 4:
		q.Set("digest", vhBadDigest)
		qMatch = false
	}
	rec := vhDo(s, "PUT", "/v2/a/manifests/"+ref, q, vhHdr("Content-Type", types.MediaTypeOCI1Manifest), body)
	code := rec.Status()
	vh.Assert(!rec.Panicked && code < 500, "C01.no-5xx")
	if code == 201 {
		// whatever digest governs (reference wins over ?digest=), it must be the body's
		rd, err := digest.Parse(rec.HeaderMap.Get("Docker-Content-Digest"))
		vh.Assert(err == nil && rd.Algorithm().FromBytes(body) == rd, "C01.manifest-ack-digest")
		vh.Assert(refMatch, "C01.manifest-mismatching-reference-acknowledged")
		if ref == "t1" {
			vh.Assert(qMatch, "C01.manifest-mismatching-digest-param-acknowledged")
		}
		vh.Cover("C01.manifest-acknowledged")
	} else {
		vh.Assert(code >= 400, "C01.manifest-refused")
		if !refMatch || (ref == "t1" && !qMatch) {
			vh.Cover("C01.manifest-refused")
		}
	}
	vhServedHashes(s, []string{"a"}, []string{"t1"}, [][]byte{img1, img2})
	vh.Cover("C01.manifest-end")
}
