package olareg

// C03: tags are a last-writer-wins map; listing and paging are exact.

import (
	"encoding/json"
	"net/url"
	"sort"
	"strconv"

	digest "github.com/opencontainers/go-digest"

	"github.com/olareg/olareg/config"
	"github.com/olareg/olareg/internal/verifenv/vh"
	"github.com/olareg/olareg/types"
)

var vhC03Tags = []string{"a", "b", "c", "d"}

// vhTwoImages pushes config+layer and returns two distinct image manifests over them.
func vhTwoImages(s *Server, repo string) ([]byte, []byte) {
	conf := []byte("{}")
	layer := []byte("xy")
	vhPushBlob(s, repo, conf)
	vhPushBlob(s, repo, layer)
	cd := vhDesc(types.MediaTypeOCI1ImageConfig, conf)
	ld := vhDesc(types.MediaTypeOCI1Layer, layer)
	img1 := vhImage(cd, []types.Descriptor{ld}, nil, "", nil)
	img2 := vhImage(cd, []types.Descriptor{ld}, nil, "", map[string]string{"v": "2"})
	return img1, img2
}

func vhStore(name string) config.Store {
	if vh.Bool(name) {
		return config.StoreDir
	}
	return config.StoreMem
}

func vhDecodeTags(body []byte) ([]string, bool) {
	tl := types.TagList{}
	if err := json.Unmarshal(body, &tl); err != nil {
		return nil, false
	}
	return tl.Tags, tl.Tags != nil
}

func vhIsPrefix(got, exp []string) bool {
	if len(got) > len(exp) {
		return false
	}
	for i := range got {
		if got[i] != exp[i] {
			return false
		}
	}
	return true
}

// VH_C03_TagList: listing and pagination for any tag set, any n (full int range), any last.
func VH_C03_TagList() {
	vhReset()
	s := New(vhConf(vhStore("dir")))
	img1, img2 := vhTwoImages(s, "r")
	var present []string
	for k, t := range vhC03Tags {
		if vh.Bool("has_" + t) {
			body := img1
			if k >= 2 {
				body = img2
			}
			rec := vhPutManifest(s, "r", t, types.MediaTypeOCI1Manifest, body)
			vh.Assert(rec.Status() == 201, "C03.setup")
			present = append(present, t)
		}
	}
	last := vh.Str("last", "", "a", "b", "bb", "c", "d", "zz")
	var exp []string
	for _, t := range present {
		if t > last {
			exp = append(exp, t)
		}
	}
	sort.Strings(exp)
	q := url.Values{}
	if last != "" {
		q.Set("last", last)
	}
	nKind := vh.Choice("nKind", 4)
	nStr := ""
	switch nKind {
	case 1:
		nStr = vh.IntMarker("n")
		q.Set("n", nStr)
	case 2:
		q.Set("n", "x")
	case 3:
		// numerals at and beyond the machine ranges and in odd notations: whether they
		// count as a page size is not specified, the answer must be well-formed
		q.Set("n", vhOddNumerals[vh.Choice("odd", len(vhOddNumerals))])
	}
	method := "GET"
	rec := vhDo(s, method, "/v2/r/tags/list", q, nil, nil)
	vh.Assert(!rec.Panicked, "C03.list-nopanic")
	vh.Assert(rec.Status() == 200, "C03.list-status")
	got, ok := vhDecodeTags(rec.Body)
	vh.Assert(ok, "C03.list-body")
	vh.Assert(vhIsPrefix(got, exp), "C03.list-prefix")
	link := rec.HeaderMap.Get("Link")
	if nKind == 3 {
		vh.Cover("C03.list-odd-numeral")
		return
	}
	if nKind != 1 {
		// no usable n: the whole listing
		vh.Assert(len(got) == len(exp) && link == "", "C03.list-full")
		vh.Cover("C03.list-unpaged")
		return
	}
	n, _ := strconv.Atoi(nStr)
	if n <= 0 {
		// "n=0, negative ... yield a valid (possibly empty) listing": checked above
		vh.Cover("C03.list-nonpositive")
		return
	}
	want := len(exp)
	if n < want {
		want = n
	}
	vh.Assert(len(got) == want, "C03.list-exact")
	vh.Assert((link != "") == (len(exp) > n), "C03.list-link")
	if link != "" {
		q2 := url.Values{}
		q2.Set("last", got[len(got)-1])
		q2.Set("n", nStr)
		vh.Assert(link == "</v2/r/tags/list?"+q2.Encode()+">; rel=next", "C03.list-linkvalue")
		vh.Cover("C03.list-paged")
	}
	// follow the chain: every tag exactly once
	all := append([]string{}, got...)
	for page := 0; page < 5 && link != ""; page++ {
		q2 := url.Values{}
		q2.Set("last", all[len(all)-1])
		q2.Set("n", nStr)
		r2 := vhDo(s, method, "/v2/r/tags/list", q2, nil, nil)
		vh.Assert(!r2.Panicked && r2.Status() == 200, "C03.page-status")
		g2, ok2 := vhDecodeTags(r2.Body)
		vh.Assert(ok2 && len(g2) > 0, "C03.page-progress")
		all = append(all, g2...)
		link = r2.HeaderMap.Get("Link")
	}
	vh.Assert(link == "", "C03.chain-ends")
	vh.Assert(len(all) == len(exp) && vhIsPrefix(all, exp), "C03.chain-exactly-once")
	vh.Cover("C03.list-end")
}

// VH_C03_TagOps: tag move, delete by tag, delete by digest through the handlers.
func VH_C03_TagOps() {
	vhReset()
	stKind := vhStore("dir")
	s := New(vhConf(stKind))
	img1, img2 := vhTwoImages(s, "r")
	d1 := digest.Canonical.FromBytes(img1)
	d2 := digest.Canonical.FromBytes(img2)
	bodies := map[digest.Digest][]byte{d1: img1, d2: img2}
	// prefix: a,b -> img1 ; c -> img2
	model := map[string]digest.Digest{}
	for _, t := range []string{"a", "b"} {
		vhPutManifest(s, "r", t, types.MediaTypeOCI1Manifest, img1)
		model[t] = d1
	}
	vhPutManifest(s, "r", "c", types.MediaTypeOCI1Manifest, img2)
	model["c"] = d2
	present := map[digest.Digest]bool{d1: true, d2: true}
	// an index listing img1 (pushed by op 3): img1 then also lives in the child list
	ixDoc := vhIndexDoc([]types.Descriptor{vhDesc(types.MediaTypeOCI1Manifest, img1)}, nil, "")
	dx := digest.Canonical.FromBytes(ixDoc)
	bodies[dx] = ixDoc
	k1 := false
	steps := vh.Param("K", 2)
	for k := 0; k < steps; k++ {
		switch vh.Choice("op", 3+vh.Param("INDEXOP", 1)) {
		case 3: // push an index over img1 under the tag ix
			rec := vhDo(s, "PUT", "/v2/r/manifests/ix", nil, vhHdr("Content-Type", types.MediaTypeOCI1ManifestList), ixDoc)
			if present[d1] {
				vh.Assert(rec.Status() == 201, "C03.put")
				vh.Cover("C03.index-pushed")
			}
			// (after img1 was deleted by digest its bytes stay in the blob store until a
			// collection: the index is then accepted as well; whether img1 is addressable
			// by digest again differs between the running server and a reloaded one - the
			// same inconsistency as known finding K1 - and is not asserted from here on)
			if rec.Status() == 201 {
				model["ix"] = dx
				present[dx] = true
				if !present[d1] {
					k1 = true
				}
			} else {
				vh.Assert(rec.Status() >= 400 && rec.Status() < 500, "C03.put-index-refusal-status")
			}
		case 0: // push/move a tag
			t := vh.Str("tag", "a", "c", "d")
			d := d1
			if vh.Bool("img2") {
				d = d2
			}
			rec := vhPutManifest(s, "r", t, types.MediaTypeOCI1Manifest, bodies[d])
			vh.Assert(rec.Status() == 201, "C03.put")
			model[t] = d
			present[d] = true
		case 1: // delete by tag
			t := vh.Str("tag", "a", "b", "c", "zz")
			rec := vhDo(s, "DELETE", "/v2/r/manifests/"+t, nil, nil, nil)
			if _, ok := model[t]; ok {
				vh.Assert(rec.Status() == 202, "C03.deltag-status")
				delete(model, t)
				vh.Cover("C03.deltag")
			} else {
				vh.Assert(rec.Status() == 404, "C03.deltag-unknown")
			}
		case 2: // delete by digest
			d := d1
			if vh.Bool("img2") {
				d = d2
			}
			rec := vhDo(s, "DELETE", "/v2/r/manifests/"+d.String(), nil, nil, nil)
			if k1 && d == d1 {
				// known finding K1 (C07/C10): img1 was deleted by digest while a present
				// index lists it; a reload brings it back as a child - its presence is
				// not asserted from here on, its tags still are
				for t, td := range model {
					if td == d {
						delete(model, t)
					}
				}
				if rec.Status() == 202 {
					present[d] = false
				}
			} else if present[d] {
				if d == d1 && present[dx] {
					k1 = true
				}
				vh.Assert(rec.Status() == 202, "C03.deldigest-status")
				for t, td := range model {
					if td == d {
						delete(model, t)
					}
				}
				present[d] = false
				vh.Cover("C03.deldigest")
			} else {
				vh.Assert(rec.Status() == 404, "C03.deldigest-unknown")
			}
		}
		// the tag map is durable state: for the directory store the view below may also be
		// taken by a new server opened on the same directory
		if stKind == config.StoreDir && (k == steps-1 || vh.Param("RESTARTLAST", 0) == 0) && vh.Bool("restart") {
			_ = s.Close()
			s = New(vhConf(stKind))
			vh.Tag("restart", "true")
			vh.Cover("C03.after-restart")
		}
		// the API view equals the model: every tag resolves to its last push, deleted
		// tags are gone, manifests stay addressable by digest until deleted by digest
		for _, t := range []string{"a", "b", "c", "d", "ix", "zz"} {
			g := vhGetManifest(s, "r", t)
			if d, ok := model[t]; ok {
				vh.Assert(g.Status() == 200 && g.HeaderMap.Get("Docker-Content-Digest") == d.String() && vhBytesEq(g.Body, bodies[d]), "C03.resolve")
			} else {
				vh.Assert(g.Status() == 404, "C03.resolve-gone")
			}
		}
		for _, d := range []digest.Digest{d1, d2} {
			g := vhGetManifest(s, "r", d.String())
			if present[d] {
				vh.Assert(g.Status() == 200 && vhBytesEq(g.Body, bodies[d]), "C03.bydigest")
			} else if !(d == d1 && k1) {
				vh.Assert(g.Status() == 404, "C03.bydigest-gone")
			}
		}
		// listing = exactly the resolvable tags, sorted, each once
		var exp []string
		for t := range model {
			exp = append(exp, t)
		}
		sort.Strings(exp)
		l := vhDo(s, "GET", "/v2/r/tags/list", nil, nil, nil)
		got, ok := vhDecodeTags(l.Body)
		vh.Assert(l.Status() == 200 && ok && len(got) == len(exp) && vhIsPrefix(got, exp), "C03.listing")
	}
	vh.Cover("C03.ops-end")
}
