package olareg

// C17: fallback-tag referrers are converted without loss, repeatably.

import (
	"context"
	"encoding/json"
	"strings"

	digest "github.com/opencontainers/go-digest"

	"github.com/olareg/olareg/config"
	"github.com/olareg/olareg/internal/verifenv/vclock"
	"github.com/olareg/olareg/internal/verifenv/vh"
	"github.com/olareg/olareg/internal/verifenv/vos"
	"github.com/olareg/olareg/types"
)

type vhLegacy struct {
	blobs map[digest.Digest][]byte
	index types.Index
}

func (l *vhLegacy) put(b []byte, alg digest.Algorithm) digest.Digest {
	d := alg.FromBytes(b)
	l.blobs[d] = b
	return d
}

func (l *vhLegacy) write(repo string) {
	p := vhRoot + "/" + repo
	vos.Put(p+"/oci-layout", []byte(`{"imageLayoutVersion":"1.0.0"}`), vclock.Last())
	b, _ := json.Marshal(l.index)
	vos.Put(p+"/index.json", b, vclock.Last())
	for d, c := range l.blobs {
		vos.Put(p+"/blobs/"+d.Algorithm().String()+"/"+d.Encoded(), c, vclock.Last())
	}
}

func vhFallbackTag(d digest.Digest) string {
	t := d.Algorithm().String() + "-" + d.Encoded()
	if len(t) > 128 {
		t = t[:128]
	}
	return t
}

// VH_C17_Convert: a directory maintained with the fallback tag scheme is opened.
func VH_C17_Convert() {
	vhReset()
	l := &vhLegacy{blobs: map[digest.Digest][]byte{}}
	conf := []byte("{}")
	layer := []byte("xy")
	l.put(conf, digest.SHA256)
	l.put(layer, digest.SHA256)
	cd := vhDesc(types.MediaTypeOCI1ImageConfig, conf)
	ld := vhDesc(types.MediaTypeOCI1Layer, layer)
	// subjects: S1 (sha256) and S2 (addressed by sha512)
	s1b := vhImage(cd, []types.Descriptor{ld}, nil, "", map[string]string{"s": "1"})
	s2b := vhImage(cd, []types.Descriptor{ld}, nil, "", map[string]string{"s": "2"})
	dS1 := l.put(s1b, digest.SHA256)
	dS2 := l.put(s2b, digest.SHA512)
	s1 := types.Descriptor{MediaType: types.MediaTypeOCI1Manifest, Digest: dS1, Size: int64(len(s1b))}
	s2 := types.Descriptor{MediaType: types.MediaTypeOCI1Manifest, Digest: dS2, Size: int64(len(s2b))}
	// referrers R1,R2 -> S1 ; R3 -> S2 ; R4 -> S1 but its blob is missing
	arts := []vhArt{vhArtifact(1, s1, true), vhArtifact(2, s1, false), vhArtifact(3, s2, true), vhArtifact(4, s1, true)}
	for k := 0; k < 3; k++ {
		l.put(arts[k].body, digest.SHA256)
	}
	// an unrelated tagged image and a loose blob
	ub := vhImage(cd, []types.Descriptor{ld}, nil, "", map[string]string{"u": "1"})
	dU := l.put(ub, digest.SHA256)
	dLoose := l.put([]byte("loose"), digest.SHA256)
	l.index = types.Index{SchemaVersion: 2, MediaType: types.MediaTypeOCI1ManifestList}
	add := func(d types.Descriptor) { l.index.Manifests = append(l.index.Manifests, d) }
	add(types.Descriptor{MediaType: types.MediaTypeOCI1Manifest, Digest: dS1, Size: int64(len(s1b)), Annotations: map[string]string{types.AnnotRefName: "s1"}})
	add(types.Descriptor{MediaType: types.MediaTypeOCI1Manifest, Digest: dS2, Size: int64(len(s2b)), Annotations: map[string]string{types.AnnotRefName: "s2"}})
	add(types.Descriptor{MediaType: types.MediaTypeOCI1Manifest, Digest: dU, Size: int64(len(ub)), Annotations: map[string]string{types.AnnotRefName: "unrelated"}})
	for k := 0; k < 3; k++ {
		add(types.Descriptor{MediaType: types.MediaTypeOCI1Manifest, Digest: arts[k].dig, Size: int64(len(arts[k].body))})
	}
	// the fallback index of S1
	listedS1 := map[int]bool{} // which artifacts some fallback index or response lists
	variant := vh.Choice("fallbackS1", vh.Param("VARIANTS", 10))
	var fb []types.Descriptor
	vh.Tag("fallbackS1", []string{"absent", "accurate", "lacks-one", "mixed-subject", "wrong-size", "wrong-artifacttype", "other-annotations", "lists-missing", "lists-non-manifest", "wrong-artifacttype-of-config-typed"}[variant])
	switch variant {
	case 1:
		fb = []types.Descriptor{arts[0].desc, arts[1].desc}
	case 2:
		fb = []types.Descriptor{arts[0].desc}
	case 3:
		fb = []types.Descriptor{arts[0].desc, arts[2].desc} // R3 belongs to S2
	case 4:
		d := arts[0].desc
		d.Size += 5
		fb = []types.Descriptor{d, arts[1].desc}
	case 5:
		d := arts[0].desc
		d.ArtifactType = "application/other"
		fb = []types.Descriptor{d, arts[1].desc}
	case 6:
		d := arts[0].desc
		d.Annotations = map[string]string{"n": "changed"}
		fb = []types.Descriptor{d, arts[1].desc}
	case 7:
		fb = []types.Descriptor{arts[0].desc, arts[3].desc} // R4's blob does not exist
	case 8:
		fb = []types.Descriptor{arts[0].desc, {MediaType: types.MediaTypeOCI1Manifest, Digest: dLoose, Size: 5}}
	case 9:
		// R2 has no artifactType field (its type is its config media type): the entry
		// carries another, non-empty one
		d := arts[1].desc
		d.ArtifactType = "application/other"
		fb = []types.Descriptor{arts[0].desc, d}
	}
	for _, d := range fb {
		for k, a := range arts {
			if a.dig == d.Digest {
				listedS1[k] = true
			}
		}
	}
	if variant > 0 {
		fbB := vhRespBytes(fb)
		dF := l.put(fbB, digest.SHA256)
		add(types.Descriptor{MediaType: types.MediaTypeOCI1ManifestList, Digest: dF, Size: int64(len(fbB)), Annotations: map[string]string{types.AnnotRefName: vhFallbackTag(dS1)}})
	}
	// the fallback index of S2 (sha512 subject): absent, accurate, or also listing R1
	// (which names S1)
	s2Listed := false
	if fb2 := vh.Choice("fallbackS2", 3); fb2 > 0 {
		l2 := []types.Descriptor{arts[2].desc}
		if fb2 == 2 {
			l2 = append(l2, arts[0].desc)
			listedS1[0] = true
			vh.Tag("fallbackS2", "mixed-subject")
		}
		fbB := vhRespBytes(l2)
		dF := l.put(fbB, digest.SHA256)
		add(types.Descriptor{MediaType: types.MediaTypeOCI1ManifestList, Digest: dF, Size: int64(len(fbB)), Annotations: map[string]string{types.AnnotRefName: vhFallbackTag(dS2)}})
		s2Listed = true
	}
	// an already converted response for S1
	prev := vh.Choice("previousResponse", 3)
	if prev > 0 {
		pl := []types.Descriptor{arts[0].desc, arts[1].desc}
		if prev == 2 {
			pl = []types.Descriptor{arts[1].desc}
		}
		for _, d := range pl {
			for k, a := range arts {
				if a.dig == d.Digest {
					listedS1[k] = true
				}
			}
		}
		pb := vhRespBytes(pl)
		dP := l.put(pb, digest.SHA256)
		add(types.Descriptor{MediaType: types.MediaTypeOCI1ManifestList, Digest: dP, Size: int64(len(pb)), Annotations: map[string]string{types.AnnotReferrerSubject: dS1.String()}})
	}
	l.write("a")
	vh.Sched()
	// open with a writable directory store, or a memory store over the directory
	st := config.StoreDir
	c := vhConf(config.StoreDir)
	if vh.Bool("memOverDir") {
		st = config.StoreMem
		c = vhConf(config.StoreMem)
		c.Storage.RootDir = vhRoot
	}
	s := New(c)
	// optionally the process dies at the k-th file-system primitive of the conversion
	// (for writes: after a prefix of the bytes) and is restarted
	if vh.Param("CRASH", 0) == 1 && st == config.StoreDir {
		if k := vh.Choice("crashAt", vh.Param("CRASHPOINTS", 12)); k > 0 {
			tear := []int{-1, 0, 1, 40}[vh.Choice("tear", 4)]
			vos.CrashAt(k-1, tear)
			func() {
				defer func() {
					if r := recover(); r != nil {
						if _, ok := r.(vos.Crash); !ok {
							panic(r)
						}
					}
				}()
				rp, err := s.store.RepoGet(context.Background(), "a")
				if err == nil {
					_, _ = rp.IndexGet()
					rp.Done()
				}
			}()
			if vos.S.Crashed {
				vh.Cover("C17.crashed-during-conversion")
				vh.Tag("crash", "during-conversion")
			}
			vos.Disarm()
			s = New(c) // restart
		}
	}
	check := func(s *Server, pass string) {
		vh.Tag("pass", pass)
		// S1: exactly the existing manifests that were listed and that name S1
		r := vhDo(s, "GET", "/v2/a/referrers/"+dS1.String(), nil, nil, nil)
		idx, ok := vhDecodeIndex(r.Body)
		vh.Assert(r.Status() == 200 && ok, "C17.referrers-api")
		if rp, err := s.store.RepoGet(context.Background(), "a"); err == nil {
			_, ierr := rp.IndexGet()
			rp.Done()
			if ierr != nil {
				vh.Note("IndexGet error: " + ierr.Error())
			}
		}
		for k, a := range arts {
			n := 0
			for _, d := range idx.Manifests {
				if d.Digest == a.dig {
					n++
					vh.Assert(vhDescEq(d, a.desc), "C17.descriptor-fields")
				}
			}
			exists := k < 3
			want := listedS1[k] && exists && a.subj == dS1
			if want {
				vh.Assert(n == 1, "C17.listed-referrer-lost")
				vh.Cover("C17.converted")
			} else {
				vh.Assert(n == 0, "C17.foreign-or-missing-referrer-listed")
			}
		}
		for _, d := range idx.Manifests {
			known := false
			for _, a := range arts {
				if a.dig == d.Digest {
					known = true
				}
			}
			vh.Assert(known, "C17.foreign-or-missing-referrer-listed")
		}
		// S2 (sha512): its referrer R3 if it was listed anywhere
		r2 := vhDo(s, "GET", "/v2/a/referrers/"+dS2.String(), nil, nil, nil)
		idx2, ok2 := vhDecodeIndex(r2.Body)
		vh.Assert(r2.Status() == 200 && ok2, "C17.referrers-api")
		n3 := 0
		for _, d := range idx2.Manifests {
			if d.Digest == arts[2].dig {
				n3++
			}
		}
		if s2Listed || variant == 3 {
			vh.Tag("subject", "sha512")
			vh.Assert(n3 == 1, "C17.listed-referrer-lost")
			vh.Tag("subject", "")
		}
		// everything else is still there
		for _, t := range []string{"s1", "s2", "unrelated"} {
			vh.Assert(vhGetManifest(s, "a", t).Status() == 200, "C17.other-tag-lost")
		}
		for k := 0; k < 3; k++ {
			vh.Assert(vhGetManifest(s, "a", arts[k].dig.String()).Status() == 200, "C17.manifest-lost")
		}
		vh.Assert(vhGetBlob(s, "a", dLoose).Status() == 200 && vhGetBlob(s, "a", ld.Digest).Status() == 200, "C17.blob-lost")
		vh.Tag("pass", "")
	}
	check(s, "first")
	if st == config.StoreDir {
		// the layout is marked as converted
		ix := types.Index{}
		vh.Assert(json.Unmarshal(vos.Bytes(vhRoot+"/a/index.json"), &ix) == nil && ix.Annotations[types.AnnotReferrerConvert] == "true", "C17.not-marked-converted")
		// repeating the conversion gives the same result
		_ = s.Close()
		after1 := string(vos.Bytes(vhRoot + "/a/index.json"))
		s = New(c)
		check(s, "second")
		_ = s.Close()
		vh.Assert(string(vos.Bytes(vhRoot+"/a/index.json")) == after1, "C17.second-conversion-changed-index")
		vh.Cover("C17.repeated")
	}
	_ = strings.Repeat
	vh.Cover("C17.convert-end")
}
