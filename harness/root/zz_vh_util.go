package olareg

// Shared helpers of the server-level harnesses (package olareg, injected by overlay).

import (
	"encoding/json"
	"net/http"
	"net/url"
	"time"

	digest "github.com/opencontainers/go-digest"

	"github.com/olareg/olareg/config"
	"github.com/olareg/olareg/internal/store"
	"github.com/olareg/olareg/internal/verifenv/vclock"
	"github.com/olareg/olareg/internal/verifenv/vhttp"
	"github.com/olareg/olareg/internal/verifenv/vos"
	"github.com/olareg/olareg/internal/verifenv/vrand"
	"github.com/olareg/olareg/types"
)

const vhRoot = "/r"

func vhBoolPtr(b bool) *bool { return &b }

// vhReset resets every environment model.
func vhReset() {
	vos.Reset()
	vclock.Reset()
	vrand.Reset()
	vos.PutDir(vhRoot, vclock.Last())
}

// vhConf is the base configuration: background collection off (no ticker), the default
// one hour grace period (so that a collection at Close never removes fresh content),
// deletes on.
func vhConf(st config.Store) config.Config {
	c := config.Config{
		Storage: config.ConfigStorage{
			StoreType: st,
			GC: config.ConfigGC{
				Frequency: -1,
			},
		},
		API: config.ConfigAPI{
			DeleteEnabled: vhBoolPtr(true),
			Blob:          config.ConfigAPIBlob{DeleteEnabled: vhBoolPtr(true)},
		},
	}
	if st == config.StoreDir {
		c.Storage.RootDir = vhRoot
	}
	return c
}

// vhDo sends one request through ServeHTTP.
func vhDo(s *Server, method, path string, q url.Values, hdr http.Header, body []byte) *vhttp.Recorder {
	cl := int64(len(body))
	req := vhttp.Request(method, path, q, hdr, body, cl)
	return vhttp.Serve(s, req)
}

func vhHdr(kv ...string) http.Header {
	h := http.Header{}
	for i := 0; i+1 < len(kv); i += 2 {
		h.Add(kv[i], kv[i+1])
	}
	return h
}

func vhQ(kv ...string) url.Values {
	q := url.Values{}
	for i := 0; i+1 < len(kv); i += 2 {
		q.Set(kv[i], kv[i+1])
	}
	return q
}

// vhPushBlob uploads content monolithically and returns its sha256 digest and status.
func vhPushBlob(s *Server, repo string, content []byte) (digest.Digest, int) {
	d := digest.Canonical.FromBytes(content)
	rec := vhDo(s, "POST", "/v2/"+repo+"/blobs/uploads/", vhQ("digest", d.String()), nil, content)
	return d, rec.Status()
}

// vhPutManifest pushes a manifest body under ref with the given content type.
func vhPutManifest(s *Server, repo, ref, mt string, body []byte) *vhttp.Recorder {
	return vhDo(s, "PUT", "/v2/"+repo+"/manifests/"+ref, nil, vhHdr("Content-Type", mt), body)
}

var vhAllAccept = []string{types.MediaTypeOCI1Manifest, types.MediaTypeOCI1ManifestList, types.MediaTypeDocker2Manifest, types.MediaTypeDocker2ManifestList}

// vhGetManifest reads a manifest accepting every supported type.
func vhGetManifest(s *Server, repo, ref string) *vhttp.Recorder {
	h := http.Header{}
	for _, a := range vhAllAccept {
		h.Add("Accept", a)
	}
	return vhDo(s, "GET", "/v2/"+repo+"/manifests/"+ref, nil, h, nil)
}

func vhGetBlob(s *Server, repo string, d digest.Digest) *vhttp.Recorder {
	return vhDo(s, "GET", "/v2/"+repo+"/blobs/"+d.String(), nil, nil, nil)
}

// vhImage builds an image manifest document over a config and layers.
func vhImage(conf types.Descriptor, layers []types.Descriptor, subject *types.Descriptor, artifactType string, annot map[string]string) []byte {
	m := types.Manifest{
		SchemaVersion: 2,
		MediaType:     types.MediaTypeOCI1Manifest,
		ArtifactType:  artifactType,
		Config:        conf,
		Layers:        layers,
		Subject:       subject,
		Annotations:   annot,
	}
	b, err := json.Marshal(m)
	if err != nil {
		panic(err)
	}
	return b
}

// vhIndex builds an index document over children.
func vhIndexDoc(children []types.Descriptor, subject *types.Descriptor, artifactType string) []byte {
	m := types.Index{
		SchemaVersion: 2,
		MediaType:     types.MediaTypeOCI1ManifestList,
		ArtifactType:  artifactType,
		Manifests:     children,
		Subject:       subject,
	}
	b, err := json.Marshal(m)
	if err != nil {
		panic(err)
	}
	return b
}

func vhDesc(mt string, b []byte) types.Descriptor {
	return types.Descriptor{MediaType: mt, Digest: digest.Canonical.FromBytes(b), Size: int64(len(b))}
}

func vhBytesEq(a, b []byte) bool {
	if len(a) != len(b) {
		return false
	}
	for i := range a {
		if a[i] != b[i] {
			return false
		}
	}
	return true
}

var _ = time.Second

// vhHoldRepo takes the repository's block token as a running collection does.
func vhHoldRepo(s *Server, name string) func() {
	st := s.store
	if rec, ok := st.(*vhRecStore); ok {
		st = rec.inner
	}
	return store.HoldRepoForTest(st, name)
}

// vhOddNumerals: numeric-looking parameter values outside what a signed 64-bit parse
// accepts, or in unusual notations.
var vhOddNumerals = []string{"", "9223372036854775807", "9223372036854775808", "18446744073709551615", "18446744073709551616",
	"-9223372036854775808", "-9223372036854775809", "+5", "-0", "0x10", "1e3", " 5", "5.0", "1_0", "\u0663"}
