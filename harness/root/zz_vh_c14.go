package olareg

// C14: read-only stores and disabled APIs never change anything.

import (
	"encoding/json"
	"strconv"
	"strings"

	digest "github.com/opencontainers/go-digest"

	"github.com/olareg/olareg/config"
	"github.com/olareg/olareg/internal/verifenv/vclock"
	"github.com/olareg/olareg/internal/verifenv/vh"
	"github.com/olareg/olareg/internal/verifenv/vos"
	"github.com/olareg/olareg/types"
)

// vhLegacyLayout rewrites repository a into the fallback-tag scheme: the referrers
// response entry is replaced by a tag <alg>-<hex> and the convert mark is removed.
func vhLegacyLayout(w *vhWorld) { vhLegacyLayoutX(w, false) }

// vhLegacyLayoutX: stale = the fallback index lists the artifact without the pulled-up
// artifactType (as an older client wrote it), so the conversion has to regenerate the
// response instead of converting the tag in place.
func vhLegacyLayoutX(w *vhWorld, stale bool) {
	p := vhRoot + "/a/index.json"
	idx := types.Index{}
	if json.Unmarshal(vos.Bytes(p), &idx) != nil {
		return
	}
	var out []types.Descriptor
	for _, d := range idx.Manifests {
		if d.Annotations != nil && d.Annotations[types.AnnotReferrerSubject] != "" {
			s := d.Annotations[types.AnnotReferrerSubject]
			d.Annotations = map[string]string{types.AnnotRefName: strings.Replace(s, ":", "-", 1)}
			if stale {
				resp := types.Index{}
				if json.Unmarshal(vos.Bytes(vhRoot+"/a/blobs/sha256/"+d.Digest.Encoded()), &resp) == nil {
					for k := range resp.Manifests {
						resp.Manifests[k].ArtifactType = ""
					}
					rb, _ := json.Marshal(resp)
					// the accurate response was never written by that client
					vos.Delete(vhRoot + "/a/blobs/sha256/" + d.Digest.Encoded())
					d.Digest = digest.Canonical.FromBytes(rb)
					d.Size = int64(len(rb))
					vos.Put(vhRoot+"/a/blobs/sha256/"+d.Digest.Encoded(), rb, vclock.Last())
				}
			}
		}
		out = append(out, d)
	}
	// the artifact itself is a top-level entry in a layout written by other tools
	out = append(out, types.Descriptor{MediaType: types.MediaTypeOCI1Manifest, Digest: w.dArt1, Size: int64(len(w.art1))})
	idx.Manifests = out
	idx.Annotations = nil
	b, _ := json.Marshal(idx)
	vos.Put(p, b, vclock.Last())
}

// VH_C14_ReadOnly: nothing below the root is created, modified or deleted.
func VH_C14_ReadOnly() {
	vhReset()
	// build the directory content with a writable server, then close it (a concrete
	// prefix: executed once per worker, its file tree is restored on later paths)
	w := vhNewWorld(vhConf(config.StoreMem), 0) // documents and digests only
	tree := vh.Memo("c14-world", func() string {
		ww := vhNewWorld(vhConf(config.StoreDir), 1)
		vhPushBlob(ww.s, "a/b", []byte("nested"))
		_ = ww.s.Close()
		return vos.Dump()
	})
	vhReset()
	vos.Restore(tree)
	layout := vh.Choice("layout", 8)
	switch layout {
	case 7:
		vhLegacyLayoutX(w, true)
	case 5:
		// an upload directory left behind (empty) by an earlier writable server
		vos.PutDir(vhRoot+"/a/_uploads", vclock.Last())
	case 6:
		// a repository that is a valid layout without any manifest or blob
		vos.Put(vhRoot+"/e/oci-layout", []byte(`{"imageLayoutVersion":"1.0.0"}`), vclock.Last())
		vos.Put(vhRoot+"/e/index.json", []byte(`{"schemaVersion":2,"mediaType":"application/vnd.oci.image.index.v1+json","manifests":[]}`), vclock.Last())
		vos.PutDir(vhRoot+"/e/blobs/sha256", vclock.Last())
	case 1:
		vhLegacyLayout(w)
	case 2:
		vos.Put(vhRoot+"/a/index.json", []byte("{corrupt"), vclock.Last())
	case 3:
		vos.Delete(vhRoot + "/a/oci-layout")
	case 4:
		vos.Delete(vhRoot + "/b/index.json")
	}
	vh.Tag("layout", []string{"normal", "legacy-fallback-tags", "corrupt-index", "no-oci-layout", "b-without-index", "leftover-empty-uploads-dir", "empty-repository", "legacy-stale-fallback-index"}[layout])
	var conf config.Config
	if vh.Bool("memOverDir") {
		conf = vhConf(config.StoreMem)
		conf.Storage.RootDir = vhRoot
		vh.Tag("store", "mem-over-dir")
	} else {
		conf = vhConf(config.StoreDir)
		conf.Storage.ReadOnly = vhBoolPtr(true)
		vh.Tag("store", "dir-readonly")
	}
	conf.Storage.GC.Frequency = 1 // a ticker would be started if the store allowed it
	conf.Storage.GC.GracePeriod = -1
	conf.Storage.GC.Untagged = vhBoolPtr(true)
	w2 := &vhWorld{}
	*w2 = *w
	w2.s = New(conf)
	w2.rec = &vhRecStore{inner: w2.s.store}
	w2.s.store = w2.rec
	before := vos.Snapshot(vhRoot)
	ops := vos.Mutations()
	// 0..K arbitrary requests (with 0 the reads below are the first requests the fresh
	// server sees)
	steps := vh.Choice("steps", vh.Param("K", 1)+1)
	for n := 0; n < steps; n++ {
		r := w2.vhAnyRequest(vh.Param("REPOS", 3), vh.Param("METHODS", 6))
		vh.Tag("route", r.route)
		vh.Tag("method", r.method)
		rec := w2.do(r)
		if r.class != "read" {
			w2.mutating = true
		}
		vh.Assert(!rec.Panicked, "C14.nopanic")
		vh.Assert(vos.Mutations() == ops, "C14.directory-modified")
		vh.Assert(vos.Snapshot(vhRoot) == before, "C14.directory-modified")
		if r.class == "push" && conf.Storage.StoreType == config.StoreDir && r.route != "malformed" && r.route != "ping" && r.route != "tags" && r.route != "referrers" {
			vh.Assert(rec.Status() >= 400 && rec.Status() < 500, "C14.push-on-readonly-not-refused")
			vh.Cover("C14.push-refused")
		}
	}
	vhTick() // background collection (if a ticker exists) must not write either
	vh.Assert(vos.Mutations() == ops, "C14.directory-modified-by-collection")
	// the content is still served (intact layouts); the memory store accepts writes in
	// memory, so there the check only applies when no mutating request was sent
	mutated := false
	if conf.Storage.StoreType == config.StoreMem && vh.Param("METHODS", 6) > 0 {
		mutated = w2.mutating
	}
	if (layout == 0 || layout == 1 || layout >= 5) && !mutated {
		g := vhGetBlob(w2.s, "a", w.dLayer)
		vh.Note("GET blob a/layer -> " + strconv.Itoa(g.Status()))
		vh.Assert(g.Status() == 200 && vhBytesEq(g.Body, w.layer), "C14.content-not-served")
		m := vhGetManifest(w2.s, "a", "t1")
		vh.Note("GET manifest a/t1 -> " + strconv.Itoa(m.Status()) + " " + string(m.Body))
		vh.Assert(m.Status() == 200 && vhBytesEq(m.Body, w.img1), "C14.content-not-served")
		vh.Cover("C14.served")
	}
	gb := vhGetBlob(w2.s, "b", w.dOther)
	// (the blob in b is unreferenced: the memory store's own collection - no grace period
	// here - may drop it from memory once b was opened; the directory keeps it)
	if layout != 4 && !mutated && conf.Storage.StoreType == config.StoreDir {
		vh.Assert(gb.Status() == 200, "C14.content-not-served")
	}
	// the empty repository is opened by a read as well
	vhDo(w2.s, "GET", "/v2/e/tags/list", nil, nil, nil)
	vh.Assert(vos.Mutations() == ops && vos.Snapshot(vhRoot) == before, "C14.directory-modified")
	_ = w2.s.Close()
	vh.Assert(vos.Mutations() == ops && vos.Snapshot(vhRoot) == before, "C14.directory-modified-by-close")
	vh.Cover("C14.readonly-end")
}

// VH_C14_Switches: disabled push/delete and read-only storage refuse and change nothing.
func VH_C14_Switches() {
	vhReset()
	st := vhStore("dir")
	conf := vhConf(st)
	push, del, blobDel, ro := vh.Bool("push"), vh.Bool("delete"), vh.Bool("blobDelete"), vh.Bool("readOnly")
	// content is created with everything enabled, then the switches are applied to the
	// running configuration (they are read on every request)
	w := vhNewWorld(conf, 2)
	*w.s.conf.API.PushEnabled = push
	*w.s.conf.API.DeleteEnabled = del
	*w.s.conf.API.Blob.DeleteEnabled = blobDel
	*w.s.conf.Storage.ReadOnly = ro
	digs := []digest.Digest{w.dLayer, w.dOther, w.dImg1, w.dArt1}
	if vh.Param("FULLSNAP", 0) == 1 {
		digs = []digest.Digest{w.dConf, w.dLayer, w.dOther, w.dImg1, w.dImg2, w.dArt1, w.dIdx1}
	}
	snap := func() string {
		s := vhSnapshot(w.s, []string{"a", "b"}, digs, []string{"t1", "ti", "new"})
		*w.s.conf.API.PushEnabled = true
		for _, x := range [][2]string{{"a", w.sessA}, {"b", w.sessB}} {
			g := vhDo(w.s, "GET", "/v2/"+x[0]+"/blobs/uploads/"+x[1], nil, nil, nil)
			s += x[1] + ":" + g.HeaderMap.Get("Range") + ";"
		}
		*w.s.conf.API.PushEnabled = push
		return s
	}
	before := snap()
	r := w.vhAnyRequest(vh.Param("REPOS", 2), vh.Param("METHODS", 6))
	vh.Tag("route", r.route)
	vh.Tag("method", r.method)
	rec := w.do(r)
	code := rec.Status()
	vh.Assert(!rec.Panicked, "C14.nopanic")
	pushClass := (r.route == "manifests" && r.method == "PUT") || (r.route == "uploads-post" && r.method == "POST") ||
		(r.route == "uploads-id" && (r.method == "PATCH" || r.method == "PUT" || r.method == "DELETE"))
	delClass := (r.route == "manifests" && r.method == "DELETE") || ((r.route == "blobs" || r.route == "uploads-post") && r.method == "DELETE")
	blobDelClass := (r.route == "blobs" || r.route == "uploads-post") && r.method == "DELETE"
	refuse := false
	if pushClass && (!vh.ConcreteBool(push) || (vh.ConcreteBool(ro) && r.route != "uploads-id")) {
		refuse = true
	}
	if delClass && (!vh.ConcreteBool(del) || vh.ConcreteBool(ro) || (blobDelClass && !vh.ConcreteBool(blobDel))) {
		refuse = true
	}
	if refuse {
		vh.Assert(code >= 400 && code < 500, "C14.disabled-request-not-refused")
		vh.Assert(snap() == before, "C14.disabled-request-changed-state")
		vh.Cover("C14.switch-refused")
	}
	if vh.ConcreteBool(ro) && r.class != "read" {
		// read-only storage: whatever the request, the readable state stays
		vh.Tag("readonly", "true")
		if !(r.route == "uploads-id") {
			vh.Assert(snap() == before, "C14.readonly-changed-state")
		}
		vh.Tag("readonly", "")
	}
	vh.Cover("C14.switches-end")
}
