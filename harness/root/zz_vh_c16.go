package olareg

// C16: repositories are isolated and storage access stays inside the root.

import (
	"strings"

	digest "github.com/opencontainers/go-digest"

	"github.com/olareg/olareg/config"
	"github.com/olareg/olareg/internal/verifenv/vclock"
	"github.com/olareg/olareg/internal/verifenv/vh"
	"github.com/olareg/olareg/internal/verifenv/vos"
	"github.com/olareg/olareg/types"
)

// VH_C16_Patterns reports the grammars of the current source to the lemma checker.
func VH_C16_Patterns() {
	vh.Note("rePath=" + rePath.String())
	vh.Note("refTag=" + types.RefTagRE.String())
	vh.Cover("C16.patterns")
}

// VH_C16_Reach: what one arbitrary request makes the store touch.
func VH_C16_Reach() {
	vhReset()
	conf := vhConf(config.StoreDir)
	level := 1 + vh.Choice("world", vh.Param("WORLDS", 2))
	w := vhNewWorld(conf, level)
	// a sentinel tree around the root
	vos.Put("/etc/passwd", []byte("root"), vclock.Last())
	r := w.vhAnyRequest(vh.Param("REPOS", 9), vh.Param("METHODS", 6))
	// the request may touch only the addressed repository's directory (and a valid
	// mount source); nothing at all when the name is outside the grammar
	allowed := []string{"/r/__nothing__"}
	if rePath.MatchString(r.repo) {
		allowed = []string{vhRoot + "/" + r.repo}
		if from := r.q.Get("from"); from != "" && rePath.MatchString(from) {
			allowed = append(allowed, vhRoot+"/"+from)
		}
	}
	before := vos.Snapshot("/etc")
	vos.SetAllowed(allowed...)
	rec := w.do(r)
	vos.SetAllowed()
	vh.Tag("route", r.route)
	vh.Assert(!rec.Panicked, "C16.nopanic")
	for _, n := range w.rec.names {
		vh.Assert(rePath.MatchString(n), "C16.store-names-in-grammar")
	}
	vh.Assert(len(vos.S.Escapes) == 0, "C16.access-outside-repository-directory")
	vh.Assert(vos.Snapshot("/etc") == before, "C16.access-outside-root")
	for _, p := range vos.List("/") {
		vh.Assert(strings.HasPrefix(p, "/r/") || p == "//" || strings.HasPrefix(p, "/etc/"), "C16.created-outside-root")
	}
	// reserved names are refused by the directory store
	if rePath.MatchString(r.repo) && len(w.rec.names) > 0 {
		reserved := false
		for _, c := range strings.Split(r.repo, "/") {
			if c == "index.json" || c == "oci-layout" || c == "blobs" {
				reserved = true
			}
		}
		if reserved && r.route != "referrers" {
			// refused (NAME_INVALID unless another client error is detected first) and
			// nothing is created for it
			vh.Assert(rec.Status() >= 400 && rec.Status() < 500, "C16.reserved-name-accepted")
			vh.Assert(!vos.Exists(vhRoot+"/"+r.repo+"/oci-layout") && !vos.Exists(vhRoot+"/"+r.repo+"/_uploads"), "C16.reserved-name-accepted")
			vh.Cover("C16.reserved-refused")
		}
	}
	// a mount succeeds only if the source repository holds the blob
	if r.route == "uploads-post" && r.method == "POST" && r.q.Get("mount") != "" && r.q.Get("digest") == "" && rec.Status() == 201 {
		d := digest.Digest(r.q.Get("mount"))
		from := r.q.Get("from")
		srcHas := from != "" && rePath.MatchString(from) && vhGetBlob(w.s, from, d).Status() == 200
		tgtHad := (r.repo == "a" && (d == w.dLayer || d == w.dConf)) || (r.repo == "b" && d == w.dOther)
		vh.Assert(srcHas || tgtHad, "C16.mount-without-source-blob")
		vh.Cover("C16.mount-201")
	}
	vh.Cover("C16.reach-end")
}

// VH_C16_Visibility: identifiers of one repository are useless in another.
func VH_C16_Visibility() {
	vhReset()
	st := vhStore("dir")
	s := New(vhConf(st))
	repos := []string{"a", "a/b", "b"}
	type content struct {
		blob  []byte
		dBlob digest.Digest
		img   []byte
		dImg  digest.Digest
		tag   string
		art   []byte
		dArt  digest.Digest
		sess  string
	}
	cs := map[string]*content{}
	for i, repo := range repos {
		c := &content{blob: []byte("blob-" + repo), tag: "tag" + string(rune('0'+i))}
		conf := []byte("{\"r\":\"" + repo + "\"}")
		vhPushBlob(s, repo, conf)
		c.dBlob, _ = vhPushBlob(s, repo, c.blob)
		c.img = vhImage(vhDesc(types.MediaTypeOCI1ImageConfig, conf), []types.Descriptor{vhDesc(types.MediaTypeOCI1Layer, c.blob)}, nil, "", nil)
		c.dImg = digest.Canonical.FromBytes(c.img)
		vh.Assert(vhPutManifest(s, repo, c.tag, types.MediaTypeOCI1Manifest, c.img).Status() == 201, "C16.setup")
		subj := vhDesc(types.MediaTypeOCI1Manifest, c.img)
		c.art = vhImage(vhDesc(types.MediaTypeOCI1Empty, conf), []types.Descriptor{vhDesc(types.MediaTypeOCI1Layer, c.blob)}, &subj, "application/vnd.test.art", nil)
		c.dArt = digest.Canonical.FromBytes(c.art)
		vh.Assert(vhPutManifest(s, repo, c.dArt.String(), types.MediaTypeOCI1Manifest, c.art).Status() == 201, "C16.setup")
		c.sess = vhSessionID(vhDo(s, "POST", "/v2/"+repo+"/blobs/uploads/", nil, nil, nil))
		cs[repo] = c
	}
	snap := func(repo string) string {
		c := cs[repo]
		return vhSnapshot(s, []string{repo}, []digest.Digest{c.dBlob, c.dImg, c.dArt}, []string{c.tag}) +
			string(rune('0'+vhDo(s, "GET", "/v2/"+repo+"/blobs/uploads/"+c.sess, nil, nil, nil).Status()/100))
	}
	x := repos[vh.Choice("x", 3)]
	y := repos[vh.Choice("y", 3)]
	vh.Assume(x != y)
	cy := cs[y]
	beforeY := snap(y)
	beforeX := snap(x)
	method := []string{"GET", "HEAD", "DELETE", "PATCH", "PUT"}[vh.Choice("method", 5)]
	var path string
	q := vhQ()
	kind := vh.Choice("kind", 6)
	switch kind {
	case 0:
		path = "/v2/" + x + "/blobs/" + cy.dBlob.String()
	case 1:
		path = "/v2/" + x + "/manifests/" + cy.dImg.String()
	case 2:
		path = "/v2/" + x + "/manifests/" + cy.tag
	case 3:
		path = "/v2/" + x + "/manifests/" + cy.dArt.String()
	case 4:
		path = "/v2/" + x + "/blobs/uploads/" + cy.sess
		q.Set("state", vhStateToken(0))
		q.Set("digest", digest.Canonical.FromBytes([]byte("z")).String())
	case 5:
		path = "/v2/" + x + "/referrers/" + cy.dImg.String()
	}
	if (method == "PATCH" || method == "PUT") && kind != 4 {
		// PUT of a manifest is a push into x, not a use of y's identifier
		vh.Assume(false)
	}
	hdr := vhHdr()
	for _, a := range vhAllAccept {
		hdr.Add("Accept", a)
	}
	rec := vhDo(s, method, path, q, hdr, []byte("z"))
	vh.Tag("kind", []string{"blob", "manifest-digest", "tag", "artifact", "session", "referrers"}[kind])
	vh.Assert(!rec.Panicked, "C16.nopanic")
	if kind == 5 {
		if method == "GET" {
			idx, ok := vhDecodeIndex(rec.Body)
			vh.Assert(rec.Status() == 200 && ok && len(idx.Manifests) == 0, "C16.referrers-served-from-other-repository")
		}
	} else {
		vh.Assert(rec.Status() >= 400 && rec.Status() < 500, "C16.served-from-other-repository")
	}
	vh.Assert(snap(y) == beforeY, "C16.other-repository-changed")
	vh.Assert(snap(x) == beforeX, "C16.addressed-repository-changed")
	vh.Cover("C16.visibility-end")
}

// VH_C16_ReferrerPages: pages of a split referrers listing that are held in the page
// cache are only served for the repository and subject they belong to.
func VH_C16_ReferrerPages() {
	vhReset()
	st := vhStore("dir")
	conf := vhConf(st)
	conf.API.Referrer.Limit = 700 // two descriptors do not fit on one page
	s := New(conf)
	mine := map[string]map[digest.Digest]bool{"a": {}, "b": {}, "a/b": {}}
	var subj types.Descriptor
	for _, repo := range []string{"a", "b", "a/b"} {
		img1, _ := vhTwoImages(s, repo)
		vhPutManifest(s, repo, "t1", types.MediaTypeOCI1Manifest, img1)
		subj = vhDesc(types.MediaTypeOCI1Manifest, img1)
	}
	// repository a: three referrers of S; b and a/b: one other referrer of the same S
	for k := 0; k < 3; k++ {
		a := vhArtifact(k, subj, true)
		vh.Assert(vhPutManifest(s, "a", a.dig.String(), types.MediaTypeOCI1Manifest, a.body).Status() == 201, "C16.setup")
		mine["a"][a.dig] = true
	}
	for i, repo := range []string{"b", "a/b"} {
		a := vhArtifact(3+i, subj, true)
		vh.Assert(vhPutManifest(s, repo, a.dig.String(), types.MediaTypeOCI1Manifest, a.body).Status() == 201, "C16.setup")
		mine[repo][a.dig] = true
	}
	// a client lists the referrers of S in a: the pages are now cached
	first := vhDo(s, "GET", "/v2/a/referrers/"+subj.Digest.String(), nil, nil, nil)
	vh.Assert(first.Status() == 200 && first.HeaderMap.Get("Link") != "", "C16.setup-paged")
	cacheA := vhResponseDigest(s, "a", subj.Digest)
	// another repository (or another subject) is asked for a page with a's cache digest
	x := []string{"b", "a/b", "zz", "a"}[vh.Choice("x", 4)]
	subject := subj.Digest.String()
	if vh.Bool("otherSubject") {
		subject = digest.Canonical.FromBytes([]byte("no such subject")).String()
	}
	vh.Assume(x != "a" || subject != subj.Digest.String())
	q := vhQ("cache", cacheA, "page", vh.IntMarker("page"))
	if vh.Bool("filtered") {
		q.Set("artifactType", "application/vnd.test.at1")
	}
	rec := vhDo(s, "GET", "/v2/"+x+"/referrers/"+subject, q, nil, nil)
	vh.Tag("asked", x)
	vh.Assert(!rec.Panicked, "C16.nopanic")
	idx, ok := vhDecodeIndex(rec.Body)
	vh.Assert(rec.Status() == 200 && ok, "C16.referrers-status")
	for _, d := range idx.Manifests {
		vh.Assert(subject == subj.Digest.String() && mine[x][d.Digest], "C16.referrers-served-from-other-repository")
	}
	vh.Cover("C16.referrer-pages-end")
}
