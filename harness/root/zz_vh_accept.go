package olareg

// Content negotiation on manifest reads (C01, C02): every shape of an Accept list.

import (
	"net/http"
	"strings"

	digest "github.com/opencontainers/go-digest"

	"github.com/olareg/olareg/config"
	"github.com/olareg/olareg/internal/verifenv/vh"
	"github.com/olareg/olareg/types"
)

// vhAcceptShapes: header lines of an Accept list that CONTAINS mt.
func vhAcceptShapes(mt string) [][]string {
	other := types.MediaTypeDocker2Manifest
	if mt == other {
		other = types.MediaTypeOCI1Manifest
	}
	return [][]string{
		{mt},
		{"text/plain, application/json, " + mt},
		{mt + ";q=0.9"},
		{"text/plain", mt},
		{"text/plain," + mt}, // bare comma, no space
		{mt + ",text/plain"}, // bare comma, type first
		{"application/json;q=0.5," + mt + ";q=0.9"}, // parameters and bare comma
		{other + "; q=0.8 , " + mt + " ; q=0.7"},    // optional white space around separators
		vhAllAccept,                                 // every supported type, one per line
		{strings.Join(vhAllAccept, ", ")},           // ... one line
		{strings.Join(vhAllAccept, ",")},            // ... one line, bare commas
	}
}

// VH_C02_Accept: an acknowledged manifest reads back identically under every Accept
// list that contains its type, by digest and by tag, GET and HEAD, both stores, also
// after a restart of the directory store.
func VH_C02_Accept() {
	vhReset()
	st := vhStore("dir")
	conf := vhConf(st)
	w := vhNewWorld(conf, 1)
	// a docker-typed image as well
	dimg := []byte(strings.Replace(string(w.img2), types.MediaTypeOCI1Manifest, types.MediaTypeDocker2Manifest, 1))
	rec := vhPutManifest(w.s, "a", "td", types.MediaTypeDocker2Manifest, dimg)
	vh.Assert(rec.Status() == 201, "C02.setup")
	items := []vhItem{
		{"a", w.dImg1.String(), w.img1, w.dImg1, types.MediaTypeOCI1Manifest},
		{"a", "t1", w.img1, w.dImg1, types.MediaTypeOCI1Manifest},
		{"a", w.dArt1.String(), w.art1, w.dArt1, types.MediaTypeOCI1Manifest},
		{"a", w.dIdx1.String(), w.idx1, w.dIdx1, types.MediaTypeOCI1ManifestList},
		{"a", "ti", w.idx1, w.dIdx1, types.MediaTypeOCI1ManifestList},
		{"a", "td", dimg, digest.Canonical.FromBytes(dimg), types.MediaTypeDocker2Manifest},
	}
	if st == config.StoreDir && vh.Bool("restart") {
		_ = w.s.Close()
		w.s = New(conf)
	}
	it := items[vh.Choice("item", len(items))]
	shapes := vhAcceptShapes(it.mt)
	shape := vh.Choice("shape", len(shapes))
	vh.Tag("accept", strings.Join(shapes[shape], " | "))
	for _, method := range []string{"GET", "HEAD"} {
		h := http.Header{}
		for _, l := range shapes[shape] {
			h.Add("Accept", l)
		}
		rec := vhDo(w.s, method, "/v2/"+it.repo+"/manifests/"+it.ref, nil, h, nil)
		vh.Assert(!rec.Panicked, "C02.nopanic")
		vh.Assert(rec.Status() == 200, "C02.readback-status")
		vh.Assert(rec.HeaderMap.Get("Docker-Content-Digest") == it.dig.String(), "C02.readback-digest-header")
		vh.Assert(rec.HeaderMap.Get("Content-Type") == it.mt, "C02.readback-mediatype")
		if method == "GET" {
			vh.Assert(vhBytesEq(rec.Body, it.bytes), "C02.readback-bytes")
		} else {
			vh.Assert(len(rec.Body) == 0, "C02.head-has-no-body")
		}
	}
	vh.Cover("C02.accept-end")
}

// VH_C01_Negotiate: whatever a manifest read returns - under ANY Accept list, including
// lists that do not contain the stored type (an index tag read by a client that only
// accepts images is answered with a child manifest) - hashes to the digest the response
// reports; HEAD reports what GET reports; a read by digest returns that digest or fails.
func VH_C01_Negotiate() {
	vhReset()
	st := vhStore("dir")
	conf := vhConf(st)
	w := vhNewWorld(conf, 1)
	// an index whose child descriptor embeds content (the optional OCI "data" field) of the
	// right length that is NOT the child's content: embedded data is client-supplied
	fake := make([]byte, len(w.img1))
	copy(fake, w.img1)
	fake[len(fake)-2] ^= 1
	cdesc := vhDesc(types.MediaTypeOCI1Manifest, w.img1)
	cdesc.Data = fake
	idxData := vhIndexDoc([]types.Descriptor{cdesc}, nil, "")
	vh.Assert(vhPutManifest(w.s, "a", "td", types.MediaTypeOCI1ManifestList, idxData).Status() == 201, "C01.setup")
	refs := []string{"t1", "ti", w.dImg1.String(), w.dIdx1.String(), w.dArt1.String(), "td"}
	ref := refs[vh.Choice("ref", len(refs))]
	lists := [][]string{
		nil, // no Accept header
		{types.MediaTypeOCI1Manifest},
		{types.MediaTypeOCI1ManifestList},
		{types.MediaTypeDocker2Manifest},
		{types.MediaTypeDocker2ManifestList},
		{types.MediaTypeDocker2Manifest, types.MediaTypeOCI1Manifest},
		{types.MediaTypeOCI1Manifest + "," + types.MediaTypeDocker2Manifest},
		{"text/plain"},
		{"*/*"},
		vhAllAccept,
	}
	li := vh.Choice("accept", len(lists))
	vh.Tag("accept", strings.Join(lists[li], " | "))
	vh.Tag("ref", ref[:2])
	h := http.Header{}
	for _, l := range lists[li] {
		h.Add("Accept", l)
	}
	g := vhDo(w.s, "GET", "/v2/a/manifests/"+ref, nil, h, nil)
	hd := vhDo(w.s, "HEAD", "/v2/a/manifests/"+ref, nil, h, nil)
	vh.Assert(!g.Panicked && !hd.Panicked, "C01.nopanic")
	vh.Assert(g.Status() == hd.Status(), "C01.head-differs-from-get")
	if g.Status() == 200 {
		rep := g.HeaderMap.Get("Docker-Content-Digest")
		d, err := digest.Parse(rep)
		vh.Assert(err == nil, "C01.reported-digest-invalid")
		if err == nil {
			vh.Assert(d.Algorithm().FromBytes(g.Body) == d, "C01.served-bytes-do-not-hash-to-reported-digest")
		}
		vh.Assert(hd.HeaderMap.Get("Docker-Content-Digest") == rep, "C01.head-differs-from-get")
		if strings.Contains(ref, ":") {
			vh.Assert(rep == ref, "C01.read-by-digest-returned-another-digest")
		}
		vh.Cover("C01.negotiated-200")
	} else {
		vh.Assert(g.Status() >= 400 && g.Status() < 500, "C01.negotiate-status")
		vh.Cover("C01.negotiated-refused")
	}
	vh.Cover("C01.negotiate-end")
}
