package olareg

import (
	"github.com/olareg/olareg/config"
	"github.com/olareg/olareg/internal/verifenv/vh"
	"github.com/olareg/olareg/types"
)

// VH_SMOKE_Server pushes an image through the real handlers on both stores.
func VH_SMOKE_Server() {
	vhReset()
	st := config.StoreMem
	if vh.Bool("dir") {
		st = config.StoreDir
	}
	s := New(vhConf(st))
	conf := []byte("{}")
	layer := []byte("xy")
	dc, code := vhPushBlob(s, "a", conf)
	vh.Assert(code == 201, "smoke.blob201")
	_, code = vhPushBlob(s, "a", layer)
	vh.Assert(code == 201, "smoke.blob201")
	rb := vhGetBlob(s, "a", dc)
	vh.Assert(rb.Status() == 200 && vhBytesEq(rb.Body, conf), "smoke.blobget")
	img := vhImage(vhDesc(types.MediaTypeOCI1ImageConfig, conf), []types.Descriptor{vhDesc(types.MediaTypeOCI1Layer, layer)}, nil, "", nil)
	rec := vhPutManifest(s, "a", "t1", types.MediaTypeOCI1Manifest, img)
	vh.Assert(rec.Status() == 201, "smoke.put201")
	g := vhGetManifest(s, "a", "t1")
	vh.Assert(g.Status() == 200 && vhBytesEq(g.Body, img), "smoke.get")
	tl := vhDo(s, "GET", "/v2/a/tags/list", vhQ("n", vh.IntMarker("n")), nil, nil)
	vh.Assert(!tl.Panicked, "smoke.tagsnopanic")
	vh.Cover("smoke.end")
	_ = s.Close()
}
