package olareg

// C04: only complete, well-formed manifests are accepted; refusals change nothing.

import (
	"encoding/json"
	"strconv"
	"strings"

	digest "github.com/opencontainers/go-digest"

	"github.com/olareg/olareg/internal/verifenv/vh"
	"github.com/olareg/olareg/types"
)

type vhDoc struct {
	name   string
	body   []byte
	kind   string // image | index | none (does not parse into either)
	field  string // value of the mediaType field ("" = absent)
	refsOK func(level int) bool
}

// vhSnapshot renders the observable state of the repositories.
func vhSnapshot(s *Server, repos []string, digs []digest.Digest, tags []string) string {
	var sb strings.Builder
	for _, repo := range repos {
		tl := vhDo(s, "GET", "/v2/"+repo+"/tags/list", nil, nil, nil)
		sb.WriteString(repo + " tags " + strconv.Itoa(tl.Status()) + " " + string(tl.Body) + "\n")
		for _, t := range tags {
			m := vhGetManifest(s, repo, t)
			sb.WriteString(" tag " + t + " " + strconv.Itoa(m.Status()) + " " + m.HeaderMap.Get("Docker-Content-Digest") + " " + m.HeaderMap.Get("Content-Type") + "\n")
		}
		for _, d := range digs {
			m := vhGetManifest(s, repo, d.String())
			b := vhGetBlob(s, repo, d)
			r := vhDo(s, "GET", "/v2/"+repo+"/referrers/"+d.String(), nil, nil, nil)
			sb.WriteString(" " + d.Encoded()[:6] + " m" + strconv.Itoa(m.Status()) + m.HeaderMap.Get("Content-Type") + " b" + strconv.Itoa(b.Status()) + " r" + strconv.Itoa(r.Status()) + string(r.Body) + "\n")
		}
	}
	return sb.String()
}

func vhDescDig(mt string, d digest.Digest) types.Descriptor {
	return types.Descriptor{MediaType: mt, Digest: d, Size: 2}
}

// VH_C04_Put: one arbitrary manifest PUT in five worlds.
func VH_C04_Put() {
	vhReset()
	conf, layer, other := []byte("{}"), []byte("xy"), []byte("y")
	cd := vhDesc(types.MediaTypeOCI1ImageConfig, conf)
	ld := vhDesc(types.MediaTypeOCI1Layer, layer)
	img1 := vhImage(cd, []types.Descriptor{ld}, nil, "", nil)
	idx1 := vhIndexDoc([]types.Descriptor{vhDesc(types.MediaTypeOCI1Manifest, img1)}, nil, "")
	subj := vhDesc(types.MediaTypeOCI1Manifest, img1)
	art0 := vhImage(vhDesc(types.MediaTypeOCI1Empty, conf), []types.Descriptor{ld}, &subj, "application/vnd.test.at0", nil)
	inA := func(l int) bool { return l == 1 || l == 3 }               // config and layer present in a
	img1InA := func(l int) bool { return l == 1 || l == 3 || l == 4 } // manifests img1/idx1 present in a
	never := func(int) bool { return false }
	always := func(int) bool { return true }
	noField := types.Manifest{SchemaVersion: 2, Config: cd, Layers: []types.Descriptor{ld}}
	noFieldB, _ := json.Marshal(noField)
	wrongField := types.Manifest{SchemaVersion: 2, MediaType: types.MediaTypeOCI1ManifestList, Config: cd, Layers: []types.Descriptor{ld}}
	wrongFieldB, _ := json.Marshal(wrongField)
	docs := []vhDoc{
		{"img2", vhImage(cd, []types.Descriptor{ld}, nil, "", map[string]string{"v": "2"}), "image", types.MediaTypeOCI1Manifest, inA},
		{"img-missing-layer", vhImage(cd, []types.Descriptor{vhDesc(types.MediaTypeOCI1Layer, []byte("missing"))}, nil, "", nil), "image", types.MediaTypeOCI1Manifest, never},
		{"img-config-only-in-b", vhImage(vhDesc(types.MediaTypeOCI1ImageConfig, other), []types.Descriptor{ld}, nil, "", nil), "image", types.MediaTypeOCI1Manifest, never},
		{"idx-present", vhIndexDoc([]types.Descriptor{vhDesc(types.MediaTypeOCI1Manifest, img1)}, nil, "application/vnd.test.idx"), "index", types.MediaTypeOCI1ManifestList, img1InA},
		{"idx-missing-child", vhIndexDoc([]types.Descriptor{vhDesc(types.MediaTypeOCI1Manifest, []byte("nochild"))}, nil, ""), "index", types.MediaTypeOCI1ManifestList, never},
		{"idx-nested", vhIndexDoc([]types.Descriptor{vhDesc(types.MediaTypeOCI1ManifestList, idx1)}, nil, ""), "index", types.MediaTypeOCI1ManifestList, img1InA},
		{"art-image", vhImage(vhDesc(types.MediaTypeOCI1Empty, conf), []types.Descriptor{ld}, &subj, "application/vnd.test.at1", map[string]string{"n": "1"}), "image", types.MediaTypeOCI1Manifest, inA},
		{"art-index", vhIndexDoc(nil, &subj, "application/vnd.test.at2"), "index", types.MediaTypeOCI1ManifestList, always},
		{"img-no-mediatype", noFieldB, "image", "", inA},
		{"malformed", []byte("{"), "none", "", never},
		{"wrong-shape", []byte("[]"), "none", "", never},
		// the mediaType field is authoritative: a document that declares itself an index
		// is an index (with no manifests), whatever other fields it carries
		{"field-says-index-with-image-fields", wrongFieldB, "index", types.MediaTypeOCI1ManifestList, always},
		// references whose digest can name no content at all: truncated, unregistered
		// algorithm, empty, upper-case hex (everything else in the document is present in a)
		{"img-layer-truncated-digest", vhImage(cd, []types.Descriptor{ld, vhDescDig(types.MediaTypeOCI1Layer, ld.Digest[:len(ld.Digest)-4])}, nil, "", nil), "image", types.MediaTypeOCI1Manifest, never},
		{"img-layer-md5-digest", vhImage(cd, []types.Descriptor{vhDescDig(types.MediaTypeOCI1Layer, "md5:d41d8cd98f00b204e9800998ecf8427e"), ld}, nil, "", nil), "image", types.MediaTypeOCI1Manifest, never},
		{"img-config-empty-digest", vhImage(vhDescDig(types.MediaTypeOCI1ImageConfig, ""), []types.Descriptor{ld}, nil, "", nil), "image", types.MediaTypeOCI1Manifest, never},
		// a subject need not exist - not even be a well-formed digest: such an artifact is
		// accepted like any other (and if it is refused, nothing may have changed)
		{"art-subject-digest-not-parsable", vhImage(vhDesc(types.MediaTypeOCI1Empty, conf), []types.Descriptor{ld}, &types.Descriptor{MediaType: types.MediaTypeOCI1Manifest, Digest: "sha256:0123456789abcdef", Size: 7}, "application/vnd.test.at1", nil), "image", types.MediaTypeOCI1Manifest, inA},
		// a config digest with dot segments that would resolve to the blob of repository b
		{"img-config-digest-with-dot-segments", vhImage(types.Descriptor{MediaType: types.MediaTypeOCI1ImageConfig, Digest: digest.Digest("sha256:../../../b/blobs/sha256/" + digest.Canonical.FromBytes(other).Encoded()), Size: int64(len(other))}, []types.Descriptor{ld}, nil, "", nil), "image", types.MediaTypeOCI1Manifest, never},
		// the image that is already stored and tagged, pushed again (retag): its layer must still exist
		{"img1-again", img1, "image", types.MediaTypeOCI1Manifest, inA},
		{"idx-child-uppercase-digest", vhIndexDoc([]types.Descriptor{vhDesc(types.MediaTypeOCI1Manifest, img1), vhDescDig(types.MediaTypeOCI1Manifest, digest.Digest("sha256:"+strings.ToUpper(digest.Canonical.FromBytes(img1).Encoded())))}, nil, ""), "index", types.MediaTypeOCI1ManifestList, never},
	}
	// every choice is made before the (expensive) world is built
	level := vh.Choice("world", 5)
	doc := docs[vh.Choice("doc", vh.Param("DOCS", len(docs)))]
	dBody := digest.Canonical.FromBytes(doc.body)
	refs := []string{"t1", "new", strings.Repeat("t", 128), strings.Repeat("t", 129), "-bad", dBody.String(),
		digest.SHA512.FromBytes(doc.body).String(), digest.Canonical.FromBytes(img1).String() + "0", vhBadDigest, digest.Canonical.FromBytes([]byte("unrelated")).String()}
	ri := vh.Choice("ref", len(refs))
	qd := vh.Choice("qdigest", 3)
	cts := []string{types.MediaTypeOCI1Manifest, types.MediaTypeOCI1ManifestList, types.MediaTypeDocker2Manifest, types.MediaTypeDocker2ManifestList, "", "text/plain", types.MediaTypeOCI1Manifest + "; charset=utf-8"}
	cti := vh.Choice("ctype", len(cts))
	bodyAsBlob := false
	if doc.kind != "none" {
		bodyAsBlob = vh.Bool("bodyStoredAsBlob")
		// (for a complete document: pushed by its digest or under a new tag only)
		vh.Assume(!bodyAsBlob || !doc.refsOK(level) || ri == 1 || ri == 5)
	}
	if vh.Param("FULL", 0) == 0 && level != 1 {
		// quick tier: the full product reference x ?digest x Content-Type is explored in
		// world 1; in the other worlds the reference is a new tag or the body digest, no
		// ?digest parameter, and the Content-Type is the document's own or absent
		vh.Assume(ri == 1 || ri == 5)
		vh.Assume(qd == 0)
		vh.Assume(cts[cti] == "" || cts[cti] == doc.field)
	}
	vh.Assume(!bodyAsBlob || level <= 1)
	s := New(vhConf(vhStore("dir")))
	// world 0: empty; 1: blobs+image+index in a; 2: the same only in b; 3: a + referrer;
	// 4: as 1, then the layer blob deleted (the image and index entries remain)
	switch level {
	case 1, 3, 4:
		vhPushBlob(s, "a", conf)
		vhPushBlob(s, "a", layer)
		vhPutManifest(s, "a", "t1", types.MediaTypeOCI1Manifest, img1)
		vhPutManifest(s, "a", "ti", types.MediaTypeOCI1ManifestList, idx1)
	case 2:
		vhPushBlob(s, "b", conf)
		vhPushBlob(s, "b", layer)
		vhPutManifest(s, "b", "t1", types.MediaTypeOCI1Manifest, img1)
		vhPutManifest(s, "b", "ti", types.MediaTypeOCI1ManifestList, idx1)
	}
	if level == 4 {
		vh.Assert(vhDo(s, "DELETE", "/v2/a/blobs/"+ld.Digest.String(), nil, nil, nil).Status() == 202, "C04.setup")
	}
	vhPushBlob(s, "b", other)
	if level == 3 {
		vhPutManifest(s, "a", digest.Canonical.FromBytes(art0).String(), types.MediaTypeOCI1Manifest, art0)
	}
	// the bytes of an incomplete document may already be stored in a as a plain blob
	// (uploaded through the blob API): that does not make it a validated manifest
	if bodyAsBlob {
		vhPushBlob(s, "a", doc.body)
		vh.Tag("bodyStoredAsBlob", "true")
	}
	ref := refs[ri]
	refValid := ri <= 2 || ri == 5 || ri == 6
	q := vhQ()
	qOK := true
	switch qd {
	case 1:
		q.Set("digest", dBody.String())
	case 2:
		q.Set("digest", digest.Canonical.FromBytes([]byte("unrelated")).String())
		qOK = ri >= 5 // a digest reference overrides the parameter
	}
	ct := cts[cti]
	hdr := vhHdr()
	if ct != "" {
		hdr.Set("Content-Type", ct)
	}
	digs := []digest.Digest{dBody, digest.SHA512.FromBytes(doc.body), digest.Canonical.FromBytes(img1), digest.Canonical.FromBytes(idx1), digest.Canonical.FromBytes(conf), digest.Canonical.FromBytes(art0)}
	tags := []string{"t1", "ti", "new", strings.Repeat("t", 128)}
	before := vhSnapshot(s, []string{"a", "b"}, digs, tags)
	vh.Tag("doc", doc.name)
	rec := vhDo(s, "PUT", "/v2/a/manifests/"+ref, q, hdr, doc.body)
	code := rec.Status()
	vh.Assert(!rec.Panicked, "C04.nopanic")
	// the effective media type
	eff := types.MediaTypeBase(ct)
	if eff == "" {
		eff = types.MediaTypeDetect(doc.body)
	}
	supported := types.MediaTypeImage(eff) || types.MediaTypeIndex(eff)
	consistent := (types.MediaTypeImage(eff) && doc.kind == "image" || types.MediaTypeIndex(eff) && doc.kind == "index") && (doc.field == "" || doc.field == eff)
	if code == 201 {
		vh.Assert(refValid, "C04.reference-valid")
		vh.Assert(qOK, "C04.digest-param")
		vh.Assert(supported, "C04.mediatype-supported")
		vh.Assert(doc.kind != "none", "C04.body-parses")
		vh.Assert(consistent, "C04.mediatype-consistent")
		vh.Assert(doc.refsOK(level), "C04.references-exist-in-repository")
		vh.Cover("C04.accepted")
		// and it is really there
		g := vhGetManifest(s, "a", dBody.String())
		if ri == 6 {
			g = vhGetManifest(s, "a", ref)
		}
		vh.Assert(g.Status() == 200 && vhBytesEq(g.Body, doc.body), "C04.accepted-readable")
	} else {
		vh.Assert(code >= 400 && code < 500, "C04.refused-4xx")
		er := types.ErrorResp{}
		vh.Assert(json.Unmarshal(rec.Body, &er) == nil && len(er.Errors) > 0, "C04.refused-error-document")
		after := vhSnapshot(s, []string{"a", "b"}, digs, tags)
		vh.Assert(after == before, "C04.refusal-changed-state")
		vh.Cover("C04.refused")
	}
	vh.Cover("C04.put-end")
}
