package olareg

// C12: no schedule of requests and background work can hang the registry.
// Two (three) threads, context switches at synchronisation operations, bounded.

import (
	"context"
	"time"

	digest "github.com/opencontainers/go-digest"

	"github.com/olareg/olareg/config"
	"github.com/olareg/olareg/internal/verifenv/vclock"
	"github.com/olareg/olareg/internal/verifenv/vh"
	"github.com/olareg/olareg/internal/verifenv/vhttp"
	"github.com/olareg/olareg/types"
)

// VH_C12_Pairs: pairs of activities that share locks.
func VH_C12_Pairs() {
	vhReset()
	st := vhStore("dir")
	conf := vhConf(st)
	conf.Storage.GC.GracePeriod = time.Minute
	conf.Storage.GC.RepoUploadMax = 1
	pair := vh.Choice("pair", 10)
	names := []string{"write-vs-expiry-timer", "write-vs-count-eviction", "complete-vs-expiry-timer", "cancel-vs-expiry-timer", "request-vs-collection", "close-vs-request", "close-vs-collection-tick", "mount-vs-collection", "mount-vs-close", "complete-vs-expiry-timer-vs-collection"}
	vh.Tag("pair", names[pair])
	if pair >= 4 {
		conf.Storage.GC.Frequency = time.Second
	}
	s := New(conf)
	vhPushBlob(s, "a", []byte("{}"))
	r := vhDo(s, "POST", "/v2/a/blobs/uploads/", nil, nil, nil)
	id := vhSessionID(r)
	vh.Assert(r.Status() == 202, "C12.setup")
	vh.Sched()
	d := digest.Canonical.FromBytes([]byte("y"))
	// the session becomes old enough to expire either before the racing request starts
	// (the request's own lookup then counts as a use) or while it is being served (the
	// timer thread moves the clock: the lookup is older than the age when the timer fires)
	late := (pair <= 3 && pair != 1 || pair == 9) && vh.Bool("clockMovesDuringRequest")
	fireTimers := func() {
		if late {
			vclock.Advance(2 * time.Minute)
		}
		for _, t := range vclock.Armed() {
			if f := t.Func(); f != nil {
				f()
			}
		}
	}
	switches := vh.Param("SWITCHES", 2)
	switch pair {
	case 0:
		// the session has become old enough to expire; a chunk arrives while the timer fires
		if !late {
			vclock.Advance(2 * time.Minute)
		}
		vh.Preempt(switches)
		vh.Go(func() { vhDo(s, "PATCH", "/v2/a/blobs/uploads/"+id, vhQ("state", vhStateToken(0)), nil, []byte("y")) })
		vh.Go(fireTimers)
	case 1:
		// a second session is opened (limit 1: count eviction starts) while a chunk arrives
		vh.Preempt(switches)
		vh.Go(func() { vhDo(s, "PATCH", "/v2/a/blobs/uploads/"+id, vhQ("state", vhStateToken(0)), nil, []byte("y")) })
		vh.Go(func() { vhDo(s, "POST", "/v2/a/blobs/uploads/", nil, nil, nil) })
	case 2:
		if !late {
			vclock.Advance(2 * time.Minute)
		}
		vh.Preempt(switches)
		vh.Go(func() {
			vhDo(s, "PUT", "/v2/a/blobs/uploads/"+id, vhQ("state", vhStateToken(0), "digest", d.String()), nil, []byte("y"))
		})
		vh.Go(fireTimers)
	case 3:
		if !late {
			vclock.Advance(2 * time.Minute)
		}
		vh.Preempt(switches)
		vh.Go(func() { vhDo(s, "DELETE", "/v2/a/blobs/uploads/"+id, nil, nil, nil) })
		vh.Go(fireTimers)
	case 4:
		// a request arrives while the store-wide collection runs
		vh.Preempt(switches)
		vh.Go(func() { vhGetBlob(s, "a", digest.Canonical.FromBytes([]byte("{}"))) })
		vh.Go(func() {
			for _, t := range vclock.Tickers() {
				t.Tick()
			}
		})
	case 5:
		// shutdown while a request is in flight and the collector is ticking
		vh.Preempt(switches)
		vh.Go(func() { vhPutManifest(s, "a", "t", types.MediaTypeOCI1Manifest, []byte("{")) })
		vh.Go(func() { _ = s.Close() })
	case 6:
		// shutdown while the collection ticker fires
		vh.Preempt(switches)
		vh.Go(func() {
			for _, t := range vclock.Tickers() {
				t.Tick()
			}
		})
		vh.Go(func() { _ = s.Close() })
	case 7:
		// a cross-repository mount (two repositories opened by one request; here the
		// source is the target itself and the blob is absent) while the collection runs
		vh.Preempt(switches)
		vh.Go(func() {
			vhDo(s, "POST", "/v2/a/blobs/uploads/", vhQ("mount", digest.Canonical.FromBytes([]byte("absent")).String(), "from", "a"), nil, nil)
		})
		vh.Go(func() {
			for _, t := range vclock.Tickers() {
				t.Tick()
			}
		})
	case 8:
		// a mount from another repository while the server shuts down
		vh.Preempt(switches)
		vh.Go(func() {
			vhDo(s, "POST", "/v2/b/blobs/uploads/", vhQ("mount", digest.Canonical.FromBytes([]byte("{}")).String(), "from", "a"), nil, nil)
		})
		vh.Go(func() { _ = s.Close() })
	case 9:
		// three parties: the last PUT of the session, the expiry timer of that same
		// session, and the store-wide collection (upload lock, cache lock, repository lock)
		if !late {
			vclock.Advance(2 * time.Minute)
		}
		vh.Preempt(switches)
		vh.Go(func() {
			vhDo(s, "PUT", "/v2/a/blobs/uploads/"+id, vhQ("state", vhStateToken(0), "digest", d.String()), nil, []byte("y"))
		})
		vh.Go(func() {
			for _, t := range vclock.Tickers() {
				t.Tick()
			}
		})
		vh.Go(fireTimers)
	}
	vh.Join()
	if pair < 4 {
		// let the collector goroutine and pending eviction goroutines finish their work
		vh.Sched()
	}
	vh.Cover("C12.pair-end")
}

// VH_C12_CancelWait: a request waiting for a collection returns when cancelled.
func VH_C12_CancelWait() {
	vhReset()
	st := vhStore("dir")
	conf := vhConf(st)
	s := New(conf)
	vhPushBlob(s, "a", []byte("{}"))
	// simulate a running collection: take the repository's block token, as gc does
	repo, err := s.store.RepoGet(context.Background(), "a")
	vh.Assert(err == nil, "C12.setup")
	repo.Done()
	variant := vh.Choice("variant", 3)
	vh.Tag("variant", []string{"token-held", "token-free-context-already-cancelled", "cancel-races-end-of-collection"}[variant])
	release := func() {}
	if variant != 1 {
		release = vhHoldRepo(s, "a")
	}
	ctx := vhttp.NewCtx()
	if variant == 1 {
		ctx.Cancel()
	}
	done := false
	released := false
	code := 0
	vh.Preempt(vh.Param("SWITCHES", 2))
	vh.Go(func() {
		req := vhttp.Request("GET", "/v2/a/tags/list", nil, nil, nil, 0)
		req = req.WithContext(ctx)
		rec := vhttp.Serve(s, req)
		code = rec.Status()
		done = true
	})
	if variant != 1 {
		vh.Go(func() { ctx.Cancel() })
	}
	if variant == 2 {
		vh.Go(func() { release(); released = true })
	}
	vh.Join()
	vh.Assert(done, "C12.waiting-request-not-released-by-cancel")
	vh.Assert(code >= 500 || code == 200, "C12.cancelled-status")
	if !released {
		release()
	}
	// whatever the abandoned request did, the repository stays usable: a later
	// request, a collection of the repository and Close all complete (a lost block
	// token would leave this thread blocked: reported as a deadlock)
	later := vhGetBlob(s, "a", digest.Canonical.FromBytes([]byte("{}")))
	vh.Assert(later.Status() == 200, "C12.request-after-abandoned-request")
	vh.Assert(s.Close() == nil, "C12.close-after-abandoned-request")
	vh.Cover("C12.cancel-end")
	_ = config.StoreDir
}

// VH_C12_AfterAny: whatever a single request did - every error path included - it gave
// back what it held: afterwards a collection of the repository, a plain request and
// Close all complete (a leaked repository reference or lock leaves one of them blocked
// forever, which the engine reports as a deadlock).
func VH_C12_AfterAny() {
	vhReset()
	conf := vhConf(vhStore("dir"))
	conf.Storage.GC.Frequency = time.Second
	w := vhNewWorld(conf, 2)
	vh.Sched()
	r := w.vhAnyRequest(vh.Param("REPOS", 3), vh.Param("METHODS", 8))
	vh.Tag("route", r.route)
	vh.Tag("method", r.method)
	rec := w.do(r)
	vh.Assert(!rec.Panicked, "C12.nopanic")
	vhTick()
	for _, repo := range []string{"a", "b"} {
		g := vhDo(w.s, "GET", "/v2/"+repo+"/tags/list", nil, nil, nil)
		vh.Assert(!g.Panicked && g.Status() < 500, "C12.request-after-any-request")
	}
	vhTick()
	// Close returns (its error value is not C12's subject)
	if err := w.s.Close(); err != nil {
		vh.Note("Close: " + err.Error())
		vh.Cover("C12.close-returned-error")
	}
	vh.Cover("C12.after-any-end")
}
