package olareg

// C08: upload sessions are strictly sequential, isolated and leave no residue.

import (
	"strconv"
	"strings"
	"time"

	digest "github.com/opencontainers/go-digest"

	"github.com/olareg/olareg/config"
	"github.com/olareg/olareg/internal/verifenv/vclock"
	"github.com/olareg/olareg/internal/verifenv/vh"
	"github.com/olareg/olareg/internal/verifenv/vos"
)

// VH_C08_ValidRange: the Content-Range kernel for every current size and start.
func VH_C08_ValidRange() {
	cur := vh.Int64("cur")
	switch vh.Choice("shape", 7) {
	case 0:
		vh.Assert(blobValidRange("", cur), "C08.range-absent")
	case 1:
		m := vh.IntMarker("start")
		s, _ := strconv.ParseInt(m, 10, 64)
		vh.Assume(s >= 0)
		got := blobValidRange(m+"-9", cur)
		vh.Assert(got == (s == cur), "C08.range-start")
		vh.Cover("C08.range-symbolic")
	case 2:
		m := vh.IntMarker("start")
		s, _ := strconv.ParseInt(m, 10, 64)
		vh.Assume(s >= 0)
		// no dash at all: not a range
		vh.Assert(!blobValidRange(m, cur), "C08.range-nodash")
	case 3:
		vh.Assert(!blobValidRange("-5", cur), "C08.range-malformed")
	case 4:
		vh.Assert(!blobValidRange("x-1", cur), "C08.range-malformed")
	case 5:
		vh.Assert(blobValidRange("5-", cur) == (cur == 5), "C08.range-openend")
	case 6:
		vh.Assert(!blobValidRange("99999999999999999999-1", cur), "C08.range-overflow")
	}
	vh.Cover("C08.range-end")
}

type vhSess struct {
	id    string
	repo  string
	bytes []byte
	alive bool
	mount bool // created with mount=<digest>: the store expects that digest
}

func vhUploadFiles(repo string) int {
	n := 0
	for _, p := range vos.List(vhRoot + "/" + repo + "/_uploads") {
		if strings.Contains(p, "/upload.") {
			n++
		}
	}
	return n
}

// VH_C08_Protocol: K arbitrary session requests against a reference model.
func VH_C08_Protocol() {
	vhReset()
	st := vhStore("dir")
	conf := vhConf(st)
	s := New(conf)
	// blobs equal to what some completions will produce already exist (completing a
	// session whose content is already stored must end the session like any other)
	if vh.Param("PRESTORED", 1) == 1 {
		vhPushBlob(s, "a", []byte("xy"))
		vhPushBlob(s, "b", []byte("y"))
	}
	// prefix: s1 in a holding "x", s2 in b (empty), s3 in a created by a failed mount
	sess := []*vhSess{}
	r := vhDo(s, "POST", "/v2/a/blobs/uploads/", nil, nil, nil)
	s1 := &vhSess{id: vhSessionID(r), repo: "a", alive: r.Status() == 202}
	p := vhDo(s, "PATCH", "/v2/a/blobs/uploads/"+s1.id, vhQ("state", vhStateToken(0)), nil, []byte("x"))
	vh.Assert(r.Status() == 202 && p.Status() == 202, "C08.setup")
	s1.bytes = []byte("x")
	r = vhDo(s, "POST", "/v2/b/blobs/uploads/", nil, nil, nil)
	s2 := &vhSess{id: vhSessionID(r), repo: "b", alive: r.Status() == 202}
	sess = append(sess, s1, s2)
	if vh.Param("MOUNT", 1) == 1 {
		md := digest.Canonical.FromBytes([]byte("elsewhere"))
		r = vhDo(s, "POST", "/v2/a/blobs/uploads/", vhQ("mount", md.String()), nil, nil)
		vh.Assert(r.Status() == 202, "C08.setup")
		sess = append(sess, &vhSess{id: vhSessionID(r), repo: "a", alive: true, mount: true})
	}
	stored := map[string][]byte{} // repo/digest -> bytes acknowledged
	if vh.Param("PRESTORED", 1) == 1 {
		stored["a/"+digest.Canonical.FromBytes([]byte("xy")).String()] = []byte("xy")
		stored["b/"+digest.Canonical.FromBytes([]byte("y")).String()] = []byte("y")
	}
	steps := vh.Param("K", 2)
	for k := 0; k < steps; k++ {
		method := []string{"PATCH", "PUT", "GET", "DELETE"}[vh.Choice("method", 4)]
		repo := []string{"a", "b"}[vh.Choice("repo", 2)]
		si := vh.Choice("session", len(sess)+1)
		id := "nosuch"
		var tgt *vhSess
		if si < len(sess) {
			tgt = sess[si]
			id = tgt.id
		}
		q := vhQ()
		hdr := vhHdr()
		var body []byte
		valid := tgt != nil && tgt.alive && tgt.repo == repo
		size := int64(0)
		if tgt != nil {
			size = int64(len(tgt.bytes))
		}
		rangeOK, stateOK, digestOK, digestMatch := true, true, true, false
		var d digest.Digest
		if method == "PATCH" || method == "PUT" {
			body = [][]byte{[]byte("y"), nil, []byte("yz")}[vh.Choice("body", vh.Param("NBODY", 3))]
			if vh.Bool("hasRange") {
				m := vh.IntMarker("start")
				sv, _ := strconv.ParseInt(m, 10, 64)
				vh.Assume(sv >= 0)
				hdr.Set("Content-Range", m+"-9")
				rangeOK = vh.ConcreteBool(sv == size)
			}
			switch vh.Choice("state", vh.Param("NSTATE", 6)) {
			case 0:
				q.Set("state", vhStateToken(size))
			case 1:
				q.Set("state", vhStateToken(size-1))
				stateOK = false
			case 2:
				q.Set("state", vhStateToken(size+1))
				stateOK = false
			case 3:
				q.Set("state", "!!!")
				stateOK = false
			case 4:
				q.Set("state", "bm9qc29u") // base64("nojson")
				stateOK = false
			case 5:
				stateOK = false // absent
			}
			if method == "PUT" {
				var have []byte
				if tgt != nil {
					have = tgt.bytes
				}
				full := append(append([]byte{}, have...), body...)
				switch vh.Choice("digest", vh.Param("NDIGEST", 5)) {
				case 0:
					d = digest.Canonical.FromBytes(full)
					digestMatch = true
				case 1:
					d = digest.SHA512.FromBytes(full)
					digestMatch = true
				case 2:
					d = digest.SHA384.FromBytes(full)
					digestMatch = true
				case 3:
					d = digest.Canonical.FromBytes([]byte("other"))
				case 4:
					d = digest.Digest(vhBadDigest)
					digestOK = false
				}
				q.Set("digest", d.String())
			}
		}
		vh.Note(method + " repo=" + repo + " session=" + strconv.Itoa(si))
		rec := vhDo(s, method, "/v2/"+repo+"/blobs/uploads/"+id, q, hdr, body)
		code := rec.Status()
		vh.Assert(!rec.Panicked, "C08.nopanic")
		switch {
		case !valid:
			// unknown, finished or foreign session: refused, nothing changes
			vh.Assert(code >= 400 && code < 500, "C08.foreign-or-dead-session-refused")
			vh.Cover("C08.refused-session")
		case method == "GET":
			vh.Assert(code == 204 && rec.HeaderMap.Get("Range") == "0-"+itoa(size-1), "C08.status-query")
			vh.Assert(strings.Contains(rec.HeaderMap.Get("Location"), "state="+vhStateToken(size)), "C08.status-state")
		case method == "DELETE":
			vh.Assert(code == 202, "C08.cancel")
			tgt.alive = false
		case !rangeOK:
			vh.Assert(code == 416, "C08.out-of-order-range-refused")
			vh.Cover("C08.range-refused")
		case method == "PUT" && !digestOK:
			vh.Assert(code == 400, "C08.bad-digest-refused")
		case !stateOK:
			vh.Assert(code == 400, "C08.stale-state-refused")
			vh.Cover("C08.state-refused")
		case method == "PATCH":
			vh.Assert(code == 202, "C08.chunk-accepted")
			tgt.bytes = append(tgt.bytes, body...)
			vh.Assert(rec.HeaderMap.Get("Range") == "0-"+itoa(int64(len(tgt.bytes))-1), "C08.chunk-range")
			vh.Cover("C08.chunk")
		case method == "PUT":
			full := append(append([]byte{}, tgt.bytes...), body...)
			if digestMatch && !tgt.mount {
				vh.Assert(code == 201, "C08.complete")
				stored[repo+"/"+d.String()] = full
				vh.Cover("C08.completed")
			} else {
				// wrong digest (or a digest other than the one announced at creation):
				// a client-side mistake
				vh.Tag("mount", strconv.FormatBool(tgt.mount))
				vh.Assert(code >= 400 && code < 500, "C08.failed-verification-is-4xx")
				vh.Tag("mount", "")
				vh.Cover("C08.verify-failed")
			}
			tgt.alive = false // completion and failed verification both end the session
		}
		// observable state equals the model
		for _, x := range sess {
			g := vhDo(s, "GET", "/v2/"+x.repo+"/blobs/uploads/"+x.id, nil, nil, nil)
			if x.alive {
				vh.Assert(g.Status() == 204 && g.HeaderMap.Get("Range") == "0-"+itoa(int64(len(x.bytes))-1), "C08.session-unchanged")
			} else {
				vh.Tag("mount", strconv.FormatBool(x.mount))
				vh.Assert(g.Status() >= 400 && g.Status() < 500, "C08.session-gone")
				vh.Tag("mount", "")
			}
			// a session id is only usable in its own repository
			other := "a"
			if x.repo == "a" {
				other = "b"
			}
			g = vhDo(s, "GET", "/v2/"+other+"/blobs/uploads/"+x.id, nil, nil, nil)
			vh.Assert(g.Status() >= 400, "C08.session-isolated")
			// nothing partial is a blob
			if len(x.bytes) > 0 {
				pd := digest.Canonical.FromBytes(x.bytes)
				if _, ok := stored[x.repo+"/"+pd.String()]; !ok {
					vh.Assert(vhGetBlob(s, x.repo, pd).Status() == 404, "C08.partial-not-a-blob")
				}
			}
		}
		for key, want := range stored {
			i := strings.Index(key, "/")
			g := vhGetBlob(s, key[:i], digest.Digest(key[i+1:]))
			vh.Assert(g.Status() == 200 && vhBytesEq(g.Body, want), "C08.stored-is-concatenation")
		}
		if st == config.StoreDir {
			for _, repo := range []string{"a", "b"} {
				live := 0
				for _, x := range sess {
					if x.alive && x.repo == repo {
						live++
					}
				}
				vh.Assert(vhUploadFiles(repo) == live, "C08.no-temp-residue")
			}
		}
	}
	vh.Cover("C08.protocol-end")
}

// VH_C08_Bound: the number of open sessions per repository stays within the bound.
func VH_C08_Bound() {
	vhReset()
	st := vhStore("dir")
	conf := vhConf(st)
	max := vh.Concrete(1 + vh.Choice("max", 3))
	conf.Storage.GC.RepoUploadMax = max
	s := New(conf)
	extra := 1 + vh.Choice("extra", 2)
	var ids []string
	for k := 0; k < max+extra; k++ {
		r := vhDo(s, "POST", "/v2/a/blobs/uploads/", nil, nil, nil)
		vh.Assert(r.Status() == 202, "C08.setup")
		ids = append(ids, vhSessionID(r))
		if vh.Bool("schedNow") {
			vh.Sched() // the pruning goroutine may run at any point between requests
		}
	}
	vh.Sched()
	open := 0
	for _, id := range ids {
		g := vhDo(s, "GET", "/v2/a/blobs/uploads/"+id, nil, nil, nil)
		if g.Status() == 204 {
			open++
		} else {
			// an evicted session refuses writes
			p := vhDo(s, "PATCH", "/v2/a/blobs/uploads/"+id, vhQ("state", vhStateToken(0)), nil, []byte("y"))
			vh.Assert(p.Status() >= 400 && p.Status() < 500, "C08.evicted-refuses")
			vh.Cover("C08.evicted")
		}
	}
	vh.Tag("max", strconv.Itoa(max))
	vh.Assert(open <= max, "C08.session-bound")
	// the newest session survives (least recently used go first)
	g := vhDo(s, "GET", "/v2/a/blobs/uploads/"+ids[len(ids)-1], nil, nil, nil)
	vh.Assert(g.Status() == 204, "C08.newest-survives")
	if st == config.StoreDir {
		vh.Assert(vhUploadFiles("a") == open, "C08.no-temp-residue")
	}
	vh.Cover("C08.bound-end")
}

// VH_C08_Expiry: sessions expire in every round of a repository's life, however the
// session table was emptied before (expiry, completion, cancellation).
func VH_C08_Expiry() {
	vhReset()
	st := vhStore("dir")
	conf := vhConf(st)
	conf.Storage.GC.GracePeriod = time.Minute
	s := New(conf)
	rounds := 2 + vh.Choice("rounds", 2)
	fire := func() {
		// the idle time passes and every armed timer goes off
		vclock.Advance(3 * time.Minute)
		for _, t := range vclock.Armed() {
			t.Fire()
		}
		vh.Sched()
	}
	for r := 0; r < rounds; r++ {
		p := vhDo(s, "POST", "/v2/a/blobs/uploads/", nil, nil, nil)
		vh.Assert(p.Status() == 202, "C08.setup")
		id := vhSessionID(p)
		off := int64(0)
		if vh.Bool("chunk") {
			c := vhDo(s, "PATCH", "/v2/a/blobs/uploads/"+id, vhQ("state", vhStateToken(0)), nil, []byte("part"))
			vh.Assert(c.Status() == 202, "C08.setup")
			off = 4
		}
		how := 0
		if r < rounds-1 {
			how = vh.Choice("end", 3)
		}
		vh.Tag("round", strconv.Itoa(r)+":"+[]string{"expire", "complete", "cancel"}[how])
		switch how {
		case 0:
			fire()
			g := vhDo(s, "GET", "/v2/a/blobs/uploads/"+id, nil, nil, nil)
			vh.Assert(g.Status() >= 400 && g.Status() < 500, "C08.expired-session-still-exists")
			w := vhDo(s, "PATCH", "/v2/a/blobs/uploads/"+id, vhQ("state", vhStateToken(off)), nil, []byte("more"))
			vh.Assert(w.Status() >= 400 && w.Status() < 500, "C08.expired-session-accepts-data")
			d := digest.Canonical.FromBytes([]byte("part"))
			f := vhDo(s, "PUT", "/v2/a/blobs/uploads/"+id, vhQ("state", vhStateToken(off), "digest", d.String()), nil, nil)
			vh.Assert(f.Status() >= 400 && f.Status() < 500, "C08.expired-session-completes")
			vh.Assert(vhGetBlob(s, "a", d).Status() == 404, "C08.partial-content-became-a-blob")
			if st == config.StoreDir {
				vh.Assert(vhUploadFiles("a") == 0, "C08.no-temp-residue")
			}
			vh.Cover("C08.expired")
		case 1:
			body := []byte("rest" + strconv.Itoa(r))
			all := body
			if off > 0 {
				all = append([]byte("part"), body...)
			}
			d := digest.Canonical.FromBytes(all)
			f := vhDo(s, "PUT", "/v2/a/blobs/uploads/"+id, vhQ("state", vhStateToken(off), "digest", d.String()), nil, body)
			vh.Assert(f.Status() == 201, "C08.complete")
		case 2:
			vh.Assert(vhDo(s, "DELETE", "/v2/a/blobs/uploads/"+id, nil, nil, nil).Status() == 202, "C08.cancel")
		}
	}
	vh.Cover("C08.expiry-end")
}
