package olareg

// C10: the directory is always a valid OCI layout equal to the API state; a restart
// and the memory store give the same answers.

import (
	"encoding/json"
	"strconv"
	"strings"
	"time"

	digest "github.com/opencontainers/go-digest"

	"github.com/olareg/olareg/config"
	"github.com/olareg/olareg/internal/verifenv/vh"
	"github.com/olareg/olareg/internal/verifenv/vclock"
	"github.com/olareg/olareg/internal/verifenv/vos"
	"github.com/olareg/olareg/types"
)

// vhLayoutValid checks the OCI layout predicate for one repository directory.
// It returns "" or the name of the broken clause.
func vhLayoutValid(repo string) string {
	bad, _ := vhLayoutValidX(repo, "")
	return bad
}

// vhLayoutValidX: entries of digest known (a manifest whose blob was deleted through the
// blob API, a recorded finding) that lack their blob are reported separately, so that
// the remaining clauses are still checked.
func vhLayoutValidX(repo string, known digest.Digest) (string, bool) {
	dangling := false
	p := vhRoot + "/" + repo
	holds := false
	for _, f := range vos.List(p + "/blobs") {
		if !strings.HasSuffix(f, "/") {
			holds = true
		}
	}
	ixb := vos.Bytes(p + "/index.json")
	ix := types.Index{}
	if ixb != nil && json.Unmarshal(ixb, &ix) == nil && len(ix.Manifests) > 0 {
		holds = true
	}
	if !holds {
		return "", false // a directory without content need not be a layout
	}
	l := types.Layout{}
	if lb := vos.Bytes(p + "/oci-layout"); lb == nil || json.Unmarshal(lb, &l) != nil || l.Version != "1.0.0" {
		return "oci-layout", dangling
	}
	if ixb == nil || json.Unmarshal(ixb, &ix) != nil {
		return "index.json", dangling
	}
	tags := map[string]bool{}
	for _, d := range ix.Manifests {
		if t := d.Annotations[types.AnnotRefName]; t != "" {
			if tags[t] {
				return "duplicate-tag", dangling
			}
			tags[t] = true
		}
		if d.Digest.Validate() != nil {
			return "entry-digest", dangling
		}
		b := vos.Bytes(p + "/blobs/" + d.Digest.Algorithm().String() + "/" + d.Digest.Encoded())
		if b == nil {
			if known != "" && d.Digest == known {
				dangling = true
				continue
			}
			return "entry-without-blob", dangling
		}
		if int64(len(b)) != d.Size || d.Digest.Algorithm().FromBytes(b) != d.Digest {
			return "entry-size-or-digest", dangling
		}
	}
	for _, f := range vos.List(p + "/blobs") {
		rest := strings.TrimPrefix(f, p+"/blobs")
		parts := strings.Split(strings.Trim(rest, "/"), "/")
		switch {
		case rest == "" || rest == "/":
		case strings.HasSuffix(f, "/"):
			if len(parts) != 1 || !digest.Algorithm(parts[0]).Available() {
				return "blobs-layout", dangling
			}
		default:
			if len(parts) != 2 || digest.Algorithm(parts[0]).FromBytes(vos.Bytes(f)).Encoded() != parts[1] {
				return "blobs-layout", dangling
			}
		}
	}
	return "", dangling
}

type vhC10Docs struct {
	x, y                   []byte
	conf                   []byte
	img1, img2, idx1, art1 []byte
	idx2                   []byte // an index over idx1 (nested)
	digs                   []digest.Digest
}

func vhC10Build() *vhC10Docs {
	d := &vhC10Docs{x: []byte("x"), y: []byte("yy"), conf: []byte("{}")}
	cd := vhDesc(types.MediaTypeOCI1ImageConfig, d.conf)
	d.img1 = vhImage(cd, []types.Descriptor{vhDesc(types.MediaTypeOCI1Layer, d.x)}, nil, "", nil)
	d.img2 = vhImage(cd, []types.Descriptor{vhDesc(types.MediaTypeOCI1Layer, d.y)}, nil, "", nil)
	d.idx1 = vhIndexDoc([]types.Descriptor{vhDesc(types.MediaTypeOCI1Manifest, d.img1)}, nil, "")
	subj := vhDesc(types.MediaTypeOCI1Manifest, d.img1)
	d.art1 = vhImage(vhDesc(types.MediaTypeOCI1Empty, d.conf), []types.Descriptor{vhDesc(types.MediaTypeOCI1Layer, d.x)}, &subj, "application/vnd.test.at1", nil)
	d.idx2 = vhIndexDoc([]types.Descriptor{vhDesc(types.MediaTypeOCI1ManifestList, d.idx1)}, nil, "")
	for _, b := range [][]byte{d.x, d.y, d.conf, d.img1, d.img2, d.idx1, d.art1} {
		d.digs = append(d.digs, digest.Canonical.FromBytes(b), digest.SHA512.FromBytes(b))
	}
	return d
}

// vhReads renders the answers to every read of the universe.
func (d *vhC10Docs) vhReads(s *Server, repos []string) string {
	return vhSnapshot(s, repos, d.digs, []string{"t1", "t2", "ti"})
}

// VH_C10_Layout: layout validity, restart equivalence and store equivalence.
func VH_C10_Layout() {
	vhReset()
	d := vhC10Build()
	repos := []string{"a", "a/b"}
	mk := func(st config.Store) *Server {
		c := vhConf(st)
		c.Storage.GC.Frequency = time.Second // collection runs when the harness ticks
		c.Storage.GC.Untagged = vhBoolPtr(vh.Param("GCUNTAGGED", 0) == 1)
		return New(c)
	}
	sd := mk(config.StoreDir)
	sm := mk(config.StoreMem)
	steps := vh.Param("K", 2)
	childDeleted := false
	manifestBlobDeleted := map[string]bool{}
	danglingSeen := false
	if vh.Param("PREFIX", 0) == 1 {
		// a populated start: image by tag, index over it, artifact, in repository a
		for _, s := range []*Server{sd, sm} {
			vhPushBlob(s, "a", d.conf)
			vhPushBlob(s, "a", d.x)
			vhPutManifest(s, "a", "t1", types.MediaTypeOCI1Manifest, d.img1)
			vhPutManifest(s, "a", "ti", types.MediaTypeOCI1ManifestList, d.idx1)
			vhPutManifest(s, "a", digest.Canonical.FromBytes(d.art1).String(), types.MediaTypeOCI1Manifest, d.art1)
			// a second image under its own tag: the last entry of index.json is a tagged one
			vhPushBlob(s, "a", d.y)
			vhPutManifest(s, "a", "t2", types.MediaTypeOCI1Manifest, d.img2)
		}
	}
	if vh.Param("PREFIX", 0) == 2 {
		// a populated start with nesting: image and index by digest only, an index over
		// that index by tag
		d.digs = append(d.digs, digest.Canonical.FromBytes(d.idx2))
		for _, s := range []*Server{sd, sm} {
			vhPushBlob(s, "a", d.conf)
			vhPushBlob(s, "a", d.x)
			vhPutManifest(s, "a", digest.Canonical.FromBytes(d.img1).String(), types.MediaTypeOCI1Manifest, d.img1)
			vhPutManifest(s, "a", digest.Canonical.FromBytes(d.idx1).String(), types.MediaTypeOCI1ManifestList, d.idx1)
			vhPutManifest(s, "a", "t2", types.MediaTypeOCI1ManifestList, d.idx2)
		}
	}
	if vh.Param("PREFIX", 0) == 3 {
		// a repository that was filled, emptied and removed by a collection while the
		// servers kept running: image by tag, deleted by digest, hours later a
		// collection (the blobs are past their grace period, the empty repository goes)
		for _, s := range []*Server{sd, sm} {
			vhPushBlob(s, "a", d.conf)
			vhPushBlob(s, "a", d.x)
			vhPutManifest(s, "a", "t1", types.MediaTypeOCI1Manifest, d.img1)
			vhDo(s, "DELETE", "/v2/a/manifests/"+digest.Canonical.FromBytes(d.img1).String(), nil, nil, nil)
		}
		vclock.Advance(2 * time.Hour)
		vhTick()
		vh.Assert(!vos.Exists(vhRoot+"/a/index.json"), "C10.setup-repository-not-removed")
	}
	for n := 0; n < steps; n++ {
		repo := repos[vh.Choice("repo", 2)]
		op := vh.Choice("op", vh.Param("OPS", 12))
		sha512 := false
		if op <= 2 {
			sha512 = vh.Bool("sha512")
		}
		names := []string{"push-blob-x", "push-blob-y+conf", "push-image", "push-index", "push-artifact", "delete-tag", "delete-digest", "delete-blob", "collect", "open-session", "delete-manifest-blob", "delete-artifact"}
		vh.Note(names[op] + " " + repo)
		apply := func(s *Server) int {
			switch op {
			case 0:
				alg := digest.Canonical
				if sha512 {
					alg = digest.SHA512
				}
				return vhDo(s, "POST", "/v2/"+repo+"/blobs/uploads/", vhQ("digest", alg.FromBytes(d.x).String()), nil, d.x).Status()
			case 1:
				vhPushBlob(s, repo, d.conf)
				_, c := vhPushBlob(s, repo, d.y)
				return c
			case 2:
				vhPushBlob(s, repo, d.conf)
				vhPushBlob(s, repo, d.x)
				ref := "t1"
				if sha512 {
					ref = digest.SHA512.FromBytes(d.img1).String()
				}
				return vhPutManifest(s, repo, ref, types.MediaTypeOCI1Manifest, d.img1).Status()
			case 3:
				return vhPutManifest(s, repo, "ti", types.MediaTypeOCI1ManifestList, d.idx1).Status()
			case 4:
				vhPushBlob(s, repo, d.conf)
				vhPushBlob(s, repo, d.x)
				return vhPutManifest(s, repo, digest.Canonical.FromBytes(d.art1).String(), types.MediaTypeOCI1Manifest, d.art1).Status()
			case 5:
				return vhDo(s, "DELETE", "/v2/"+repo+"/manifests/t1", nil, nil, nil).Status()
			case 6:
				return vhDo(s, "DELETE", "/v2/"+repo+"/manifests/"+digest.Canonical.FromBytes(d.img1).String(), nil, nil, nil).Status()
			case 7:
				return vhDo(s, "DELETE", "/v2/"+repo+"/blobs/"+digest.Canonical.FromBytes(d.x).String(), nil, nil, nil).Status()
			case 8:
				vhTick()
				return 0
			case 9:
				return vhDo(s, "POST", "/v2/"+repo+"/blobs/uploads/", nil, nil, nil).Status()
			case 10:
				// the blob of the image manifest is deleted through the blob API: its index
				// entry loses its backing content (a later collection drops the entry)
				return vhDo(s, "DELETE", "/v2/"+repo+"/blobs/"+digest.Canonical.FromBytes(d.img1).String(), nil, nil, nil).Status()
			case 11:
				// the artifact is deleted by digest: its subject's referrers response is
				// regenerated without it and the index entry repointed
				return vhDo(s, "DELETE", "/v2/"+repo+"/manifests/"+digest.Canonical.FromBytes(d.art1).String(), nil, nil, nil).Status()
			}
			return 0
		}
		// was img1 a child of a present index when it is deleted by digest?
		if op == 6 && vhGetManifest(sd, repo, digest.Canonical.FromBytes(d.idx1).String()).Status() == 200 {
			childDeleted = true
		}
		cd, cm := 0, 0
		if op == 8 {
			// one tick reaches the collection goroutines of both servers: one pass each
			vhTick()
		} else {
			cd = apply(sd)
			cm = apply(sm)
		}
		vh.Tag("step", names[op])
		vh.Assert(cd == cm, "C10.stores-answer-differently")
		// (i) the directory is a valid layout describing the API state
		if op == 10 && cd == 202 {
			manifestBlobDeleted[repo] = true
		}
		for _, r := range repos {
			known := digest.Digest("")
			if manifestBlobDeleted[r] {
				known = digest.Canonical.FromBytes(d.img1)
			}
			bad, dangling := vhLayoutValidX(r, known)
			if bad != "" {
				vh.Tag("clause", bad)
				vh.Assert(false, "C10.directory-not-a-valid-layout")
			}
			if dangling {
				danglingSeen = true // reported at the end of the path (recorded finding)
			}
		}
		// (iii) the memory store gives the same answers
		rd := d.vhReads(sd, repos)
		if childDeleted {
			// a reload of index.json (restart, or the forced reload of a collection)
			// rebuilds child descriptors from the parent indexes
			vh.Tag("scenario", "deleted-child-of-present-index-after-restart")
		}
		vh.Assert(rd == d.vhReads(sm, repos), "C10.stores-answer-differently")
		vh.Tag("scenario", "")
		// (ii) a new server on the same directory gives the same answers
		if vh.Bool("restartCheck") {
			s2 := New(vhConf(config.StoreDir))
			if childDeleted {
				vh.Tag("scenario", "deleted-child-of-present-index-after-restart")
			}
			vh.Assert(d.vhReads(s2, repos) == rd, "C10.restart-answers-differently")
			vh.Tag("scenario", "")
			vh.Cover("C10.restart-compared")
		}
		vh.Tag("step", "")
	}
	vh.Note("steps=" + strconv.Itoa(steps))
	vh.Cover("C10.layout-end")
	if danglingSeen {
		vh.Tag("clause", "entry-without-blob")
		vh.Tag("scenario", "manifest-blob-deleted-through-blob-api")
		vh.Assert(false, "C10.directory-not-a-valid-layout")
	}
}
