package olareg

// The request universe shared by the server-level harnesses (C02, C04, C10, C14, C15,
// C16): a populated world and one symbolic request over every route, method and
// parameter family.  Choices are forked lazily, numeric parameters (n, page,
// Content-Range start, Content-Length) are fully symbolic integers.

import (
	"context"
	"encoding/base64"
	"net/http"
	"net/url"
	"strconv"
	"strings"

	digest "github.com/opencontainers/go-digest"

	"github.com/olareg/olareg/config"
	"github.com/olareg/olareg/internal/store"
	"github.com/olareg/olareg/internal/verifenv/vh"
	"github.com/olareg/olareg/internal/verifenv/vhttp"
	"github.com/olareg/olareg/types"
)

// vhRecStore records every repository name handed to the store.
type vhRecStore struct {
	inner store.Store
	names []string
}

func (r *vhRecStore) RepoGet(ctx context.Context, repoStr string) (store.Repo, error) {
	r.names = append(r.names, repoStr)
	return r.inner.RepoGet(ctx, repoStr)
}

func (r *vhRecStore) Close() error { return r.inner.Close() }

type vhWorld struct {
	s        *Server
	rec      *vhRecStore
	conf, layer, other []byte
	img1, img2, art1, idx1 []byte
	dConf, dLayer, dOther digest.Digest
	dImg1, dImg2, dArt1, dIdx1 digest.Digest
	sessA, sessB string // upload session ids in a and b
	sessASize    int64
	mutating     bool
}

func vhSessionID(rec *vhttp.Recorder) string {
	loc := rec.HeaderMap.Get("Location")
	if i := strings.Index(loc, "?"); i >= 0 {
		loc = loc[:i]
	}
	return loc[strings.LastIndex(loc, "/")+1:]
}

func vhStateToken(off int64) string {
	return base64.RawURLEncoding.EncodeToString([]byte(`{"offset":` + itoa(off) + `}`))
}

func itoa(n int64) string {
	if n == 0 {
		return "0"
	}
	neg := n < 0
	if neg {
		n = -n
	}
	var b []byte
	for n > 0 {
		b = append([]byte{byte('0' + n%10)}, b...)
		n /= 10
	}
	if neg {
		b = append([]byte{'-'}, b...)
	}
	return string(b)
}

// vhNewWorld builds the populated state.  level 0: empty server; 1: content in a and b;
// 2: + open upload sessions.
func vhNewWorld(conf config.Config, level int) *vhWorld {
	w := &vhWorld{}
	w.s = New(conf)
	w.rec = &vhRecStore{inner: w.s.store}
	w.s.store = w.rec
	w.conf = []byte("{}")
	w.layer = []byte("xy")
	w.other = []byte("y")
	w.dConf = digest.Canonical.FromBytes(w.conf)
	w.dLayer = digest.Canonical.FromBytes(w.layer)
	w.dOther = digest.Canonical.FromBytes(w.other)
	cd := vhDesc(types.MediaTypeOCI1ImageConfig, w.conf)
	ld := vhDesc(types.MediaTypeOCI1Layer, w.layer)
	w.img1 = vhImage(cd, []types.Descriptor{ld}, nil, "", nil)
	w.img2 = vhImage(cd, []types.Descriptor{ld}, nil, "", map[string]string{"v": "2"})
	w.dImg1 = digest.Canonical.FromBytes(w.img1)
	w.dImg2 = digest.Canonical.FromBytes(w.img2)
	subj := vhDesc(types.MediaTypeOCI1Manifest, w.img1)
	w.art1 = vhImage(vhDesc(types.MediaTypeOCI1Empty, w.conf), []types.Descriptor{ld}, &subj, "application/vnd.test.at1", map[string]string{"n": "1"})
	w.dArt1 = digest.Canonical.FromBytes(w.art1)
	w.idx1 = vhIndexDoc([]types.Descriptor{vhDesc(types.MediaTypeOCI1Manifest, w.img1)}, nil, "")
	w.dIdx1 = digest.Canonical.FromBytes(w.idx1)
	if level >= 1 {
		vhPushBlob(w.s, "a", w.conf)
		vhPushBlob(w.s, "a", w.layer)
		vhPutManifest(w.s, "a", "t1", types.MediaTypeOCI1Manifest, w.img1)
		vhPutManifest(w.s, "a", w.dArt1.String(), types.MediaTypeOCI1Manifest, w.art1)
		vhPutManifest(w.s, "a", "ti", types.MediaTypeOCI1ManifestList, w.idx1)
		vhPushBlob(w.s, "b", w.other)
	}
	if level >= 2 {
		r := vhDo(w.s, "POST", "/v2/a/blobs/uploads/", nil, nil, nil)
		w.sessA = vhSessionID(r)
		p := vhDo(w.s, "PATCH", "/v2/a/blobs/uploads/"+w.sessA, vhQ("state", vhStateToken(0)), nil, []byte("x"))
		if p.Status() == 202 {
			w.sessASize = 1
		}
		r = vhDo(w.s, "POST", "/v2/b/blobs/uploads/", nil, nil, nil)
		w.sessB = vhSessionID(r)
	}
	w.rec.names = nil
	return w
}

type vhReq struct {
	method, path string
	q            url.Values
	hdr          http.Header
	body         []byte
	cl           int64
	route        string // ping manifests blobs uploads-post uploads-id referrers tags malformed
	repo         string
	ref          string
	class        string // push | delete | read | other
}

var vhMethods = []string{"PUT", "DELETE", "POST", "PATCH", "GET", "HEAD", "OPTIONS", "BREW"}

var vhRepoNames = []string{"a", "b", "a/b", "zz", "index.json", "a/blobs", "x/oci-layout", "A", "a..b"}

const vhBadDigest = "sha256:zz"
const vhMd5Digest = "md5:d41d8cd98f00b204e9800998ecf8427e"

func (w *vhWorld) digestUniverse() []string {
	unknown := digest.Canonical.FromBytes([]byte("unknown")).String()
	sha512 := digest.SHA512.FromBytes(w.layer).String()
	return []string{w.dLayer.String(), w.dOther.String(), w.dImg1.String(), unknown, sha512, vhBadDigest, vhMd5Digest, w.dArt1.String()}
}

// vhAnyRequest draws one request.  nRepos/nMethods restrict the universes (tier bounds).
func (w *vhWorld) vhAnyRequest(nRepos, nMethods int) *vhReq {
	r := &vhReq{q: url.Values{}, hdr: http.Header{}, cl: 0}
	r.method = vhMethods[vh.Choice("method", nMethods)]
	switch r.method {
	case "GET", "HEAD":
		r.class = "read"
	case "DELETE":
		r.class = "delete"
	case "PUT", "POST", "PATCH":
		r.class = "push"
	default:
		r.class = "other"
	}
	digs := w.digestUniverse()
	route := vh.Choice("route", 8)
	if route != 0 && route != 7 {
		r.repo = vhRepoNames[vh.Choice("repo", nRepos)]
	}
	noise := ""
	switch vh.Choice("noise", vh.Param("NOISE", 3)) {
	case 1:
		noise = "/"
	case 2:
		noise = "/./"
	}
	switch route {
	case 0:
		r.route = "ping"
		r.path = "/v2/" + noise
	case 1:
		r.route = "manifests"
		refs := []string{"t1", "ti", "nosuch", w.dImg1.String(), w.dImg2.String(), w.dArt1.String(), vhBadDigest, strings.Repeat("t", 129), "-bad"}
		r.ref = refs[vh.Choice("ref", len(refs))]
		r.path = "/v2/" + r.repo + "/manifests/" + r.ref + noise
		switch r.method {
		case "GET", "HEAD":
			switch vh.Choice("accept", 3) {
			case 0:
				for _, a := range vhAllAccept {
					r.hdr.Add("Accept", a)
				}
			case 1:
				r.hdr.Add("Accept", "text/plain, "+types.MediaTypeOCI1Manifest+";q=0.9")
			}
		case "PUT":
			docs := [][]byte{w.img1, w.img2, w.art1, w.idx1, []byte("{"), []byte("[]"),
				vhImage(vhDesc(types.MediaTypeOCI1ImageConfig, w.conf), []types.Descriptor{vhDesc(types.MediaTypeOCI1Layer, []byte("missing"))}, nil, "", nil),
				// a reference whose digest string carries dot segments towards a blob of
				// repository b (a digest inside a JSON body is just a string)
				vhImage(types.Descriptor{MediaType: types.MediaTypeOCI1ImageConfig, Digest: digest.Digest("sha256:../../../b/blobs/sha256/" + w.dOther.Encoded()), Size: int64(len(w.other))}, []types.Descriptor{vhDesc(types.MediaTypeOCI1Layer, w.layer)}, nil, "", nil)}
			r.body = docs[vh.Choice("doc", len(docs))]
			cts := []string{types.MediaTypeOCI1Manifest, types.MediaTypeOCI1ManifestList, "", "text/plain"}
			if ct := cts[vh.Choice("ctype", len(cts))]; ct != "" {
				r.hdr.Set("Content-Type", ct)
			}
			switch vh.Choice("qdigest", 3) {
			case 1:
				r.q.Set("digest", digest.Canonical.FromBytes(r.body).String())
			case 2:
				r.q.Set("digest", vhBadDigest)
			}
			r.cl = int64(len(r.body))
		}
	case 2:
		r.route = "blobs"
		r.ref = digs[vh.Choice("digest", len(digs))]
		r.path = "/v2/" + r.repo + "/blobs/" + r.ref + noise
	case 3:
		r.route = "uploads-post"
		r.path = "/v2/" + r.repo + "/blobs/uploads/" + noise
		if r.method == "POST" {
			bodies := [][]byte{nil, w.layer, w.other}
			r.body = bodies[vh.Choice("body", len(bodies))]
			r.cl = int64(len(r.body))
			switch vh.Choice("pdigest", 4) {
			case 1:
				r.q.Set("digest", digest.Canonical.FromBytes(r.body).String())
			case 2:
				r.q.Set("digest", w.dConf.String())
			case 3:
				r.q.Set("digest", vhBadDigest)
			}
			switch vh.Choice("algo", 3) {
			case 1:
				r.q.Set("digest-algorithm", "sha512")
			case 2:
				r.q.Set("digest-algorithm", "md5")
			}
			switch vh.Choice("mount", 4) {
			case 1:
				r.q.Set("mount", w.dOther.String())
				froms := []string{"b", "a", "../x", "/abs", "a/../../x", "A", "zz"}
				r.q.Set("from", froms[vh.Choice("from", len(froms))])
			case 2:
				r.q.Set("mount", vhBadDigest)
				r.q.Set("from", "b")
			case 3:
				r.q.Set("mount", w.dLayer.String())
			}
		}
	case 4:
		r.route = "uploads-id"
		ids := []string{w.sessA, w.sessB, "nosuch"}
		id := ids[vh.Choice("session", len(ids))]
		if id == "" {
			id = "nosession"
		}
		r.ref = id
		r.path = "/v2/" + r.repo + "/blobs/uploads/" + id + noise
		if r.method == "PATCH" || r.method == "PUT" {
			bodies := [][]byte{nil, []byte("y")}
			r.body = bodies[vh.Choice("body", len(bodies))]
			r.cl = int64(len(r.body))
			switch vh.Choice("range", 4) {
			case 1:
				// a non-negative decimal start (a leading '-' is a different string shape,
				// covered by case 2)
				start := vh.IntMarker("rangeStart")
				sv, _ := strconv.ParseInt(start, 10, 64)
				vh.Assume(sv >= 0)
				r.hdr.Set("Content-Range", start+"-9")
			case 2:
				r.hdr.Set("Content-Range", "-5")
			case 3:
				r.hdr.Set("Content-Range", "x-1")
			}
			switch vh.Choice("state", 5) {
			case 0:
				r.q.Set("state", vhStateToken(w.sessASize))
			case 1:
				r.q.Set("state", vhStateToken(0))
			case 2:
				r.q.Set("state", vhStateToken(w.sessASize+1))
			case 3:
				r.q.Set("state", "!!!")
			case 4:
				r.q.Set("state", base64.RawURLEncoding.EncodeToString([]byte("nojson")))
			}
			if r.method == "PUT" {
				full := append([]byte("x"), r.body...)
				switch vh.Choice("pdigest", 4) {
				case 0:
					r.q.Set("digest", digest.Canonical.FromBytes(full).String())
				case 1:
					r.q.Set("digest", digest.Canonical.FromBytes(r.body).String())
				case 2:
					r.q.Set("digest", digest.SHA512.FromBytes(full).String())
				case 3:
					r.q.Set("digest", vhBadDigest)
				}
			}
		}
	case 5:
		r.route = "referrers"
		subs := []string{w.dImg1.String(), w.dImg2.String(), vhBadDigest, "t1"}
		r.ref = subs[vh.Choice("subject", len(subs))]
		r.path = "/v2/" + r.repo + "/referrers/" + r.ref + noise
		switch vh.Choice("atype", 3) {
		case 1:
			r.q.Set("artifactType", "application/vnd.test.at1")
		case 2:
			r.q.Set("artifactType", "unknown/type")
		}
		switch vh.Choice("page", 3) {
		case 1:
			r.q.Set("page", vh.IntMarker("page"))
		case 2:
			r.q.Set("page", "x")
		}
		switch vh.Choice("cache", 3) {
		case 1:
			r.q.Set("cache", w.dImg1.String())
		case 2:
			r.q.Set("cache", vhBadDigest)
		}
	case 6:
		r.route = "tags"
		r.path = "/v2/" + r.repo + "/tags/list" + noise
		switch vh.Choice("n", 4) {
		case 1:
			r.q.Set("n", vh.IntMarker("n"))
		case 2:
			r.q.Set("n", "x")
		case 3:
			r.q.Set("n", vhOddNumerals[vh.Choice("odd", len(vhOddNumerals))])
		}
		switch vh.Choice("last", 3) {
		case 1:
			r.q.Set("last", "t1")
		case 2:
			r.q.Set("last", "zz")
		}
	case 7:
		r.route = "malformed"
		shapes := []string{"/", "/v1/", "/v2/a", "/v2/a/manifests", "/v2/a/blobs/uploads", "/v2//manifests/t1", "/v2/a/unknown/x", "/../v2/", "/v2/a/../../etc/passwd"}
		r.path = shapes[vh.Choice("shape", len(shapes))]
		if strings.HasPrefix(r.path, "/v2/a/") {
			r.repo = "a" // some of these shapes are valid routes into repository a
		}
	}
	return r
}

func (w *vhWorld) do(r *vhReq) *vhttp.Recorder {
	req := vhttp.Request(r.method, r.path, r.q, r.hdr, r.body, r.cl)
	return vhttp.Serve(w.s, req)
}
