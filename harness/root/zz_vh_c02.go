package olareg

// C02: acknowledged pushes read back byte-identical until deleted or collected; a
// manifest larger than the limit is refused, never stored in a shortened form.

import (
	"net/http"
	"strconv"

	digest "github.com/opencontainers/go-digest"

	"github.com/olareg/olareg/config"
	"github.com/olareg/olareg/internal/verifenv/vh"
	"github.com/olareg/olareg/internal/verifenv/vhttp"
	"github.com/olareg/olareg/types"
)

// VH_C02_Limit: the manifest size limit for any limit value and known/unknown length.
func VH_C02_Limit() {
	vhReset()
	conf := vhConf(vhStore("dir"))
	limit := vh.Int64("limit")
	conf.API.Manifest.Limit = limit
	s := New(conf)
	img1, _ := vhTwoImages(s, "a")
	pad := vh.Choice("pad", 3)
	body := append([]byte{}, img1...)
	for k := 0; k < pad; k++ {
		body = append(body, ' ')
	}
	l := int64(len(body))
	// limits around the body length, a tiny one, and far away (incl. the default)
	vh.Assume(vh.Or(vh.And(limit >= l-2, limit <= l+2), limit == 1, limit >= 1<<40, limit <= 0))
	cl := l
	if vh.Bool("unknownLength") {
		cl = -1
	}
	req := vhttp.Request("PUT", "/v2/a/manifests/t1", nil, vhHdr("Content-Type", types.MediaTypeOCI1Manifest), body, cl)
	rec := vhttp.Serve(s, req)
	code := rec.Status()
	vh.Assert(!rec.Panicked && code < 500, "C02.no-5xx")
	want := digest.Canonical.FromBytes(body)
	g := vhGetManifest(s, "a", "t1")
	if code == 201 {
		vh.Tag("unknownLength", strconv.FormatBool(cl < 0))
		vh.Assert(rec.HeaderMap.Get("Docker-Content-Digest") == want.String(), "C02.acknowledged-digest-is-whole-body")
		vh.Assert(g.Status() == 200 && vhBytesEq(g.Body, body), "C02.stored-in-shortened-form")
		vh.Tag("unknownLength", "")
		eff := limit
		if eff <= 0 {
			eff = 8 * 1024 * 1024
		}
		vh.Assert(l <= eff, "C02.over-limit-acknowledged")
		vh.Cover("C02.limit-accepted")
	} else {
		vh.Assert(code >= 400, "C02.refused")
		vh.Assert(g.Status() == 404, "C02.refused-left-trace")
		// nothing new is readable: neither the whole body nor any prefix digest the
		// handler may have computed
		vh.Assert(vhGetManifest(s, "a", want.String()).Status() == 404, "C02.refused-left-trace")
		vh.Cover("C02.limit-refused")
	}
	vh.Cover("C02.limit-end")
}

type vhItem struct {
	repo  string
	ref   string // digest string or tag
	bytes []byte
	dig   digest.Digest
	mt    string // "" for blobs
}

func vhReadBack(s *Server, it vhItem, acceptShape int) {
	for _, method := range []string{"GET", "HEAD"} {
		var rec *vhttp.Recorder
		if it.mt == "" {
			rec = vhDo(s, method, "/v2/"+it.repo+"/blobs/"+it.ref, nil, nil, nil)
		} else {
			h := http.Header{}
			switch acceptShape {
			case 0:
				h.Add("Accept", it.mt)
			case 1:
				h.Add("Accept", "text/plain, application/json, "+it.mt)
			case 2:
				h.Add("Accept", it.mt+";q=0.9")
			case 3:
				h.Add("Accept", "text/plain")
				h.Add("Accept", it.mt)
			}
			rec = vhDo(s, method, "/v2/"+it.repo+"/manifests/"+it.ref, nil, h, nil)
		}
		vh.Tag("item", it.repo+"/"+it.ref[:2])
		vh.Assert(rec.Status() == 200, "C02.readback-status")
		vh.Assert(rec.HeaderMap.Get("Docker-Content-Digest") == it.dig.String(), "C02.readback-digest-header")
		vh.Assert(rec.HeaderMap.Get("Content-Length") == strconv.Itoa(len(it.bytes)), "C02.readback-length")
		if it.mt != "" {
			vh.Assert(rec.HeaderMap.Get("Content-Type") == it.mt, "C02.readback-mediatype")
		}
		if method == "GET" {
			vh.Assert(vhBytesEq(rec.Body, it.bytes), "C02.readback-bytes")
		} else {
			vh.Assert(len(rec.Body) == 0, "C02.head-has-no-body")
		}
		vh.Tag("item", "")
	}
}

// VH_C02_ReadBack: everything acknowledged before an arbitrary request (and a restart)
// still reads back identically unless that request explicitly deleted or replaced it.
func VH_C02_ReadBack() {
	vhReset()
	st := vhStore("dir")
	conf := vhConf(st)
	w := vhNewWorld(conf, 1)
	// a zero-length blob, pushed and acknowledged like any other
	dEmpty, cEmpty := vhPushBlob(w.s, "a", []byte{})
	vh.Assert(cEmpty == 201, "C02.setup")
	// a nested index: image 2 and an index over it by digest only, an index over that
	// index by tag (children and grandchildren live in the child list, which a restart
	// rebuilds from the index blobs)
	img3 := vhImage(vhDesc(types.MediaTypeOCI1ImageConfig, w.conf), []types.Descriptor{vhDesc(types.MediaTypeOCI1Layer, w.layer)}, nil, "", map[string]string{"v": "3"})
	dImg3 := digest.Canonical.FromBytes(img3)
	idxA := vhIndexDoc([]types.Descriptor{vhDesc(types.MediaTypeOCI1Manifest, img3)}, nil, "")
	idxB := vhIndexDoc([]types.Descriptor{vhDesc(types.MediaTypeOCI1ManifestList, idxA)}, nil, "")
	dIdxA, dIdxB := digest.Canonical.FromBytes(idxA), digest.Canonical.FromBytes(idxB)
	// the bytes of image 2 are in the repository as a plain blob only (uploaded through
	// the blob API): a later push of that manifest by digest must make it a manifest
	_, cBlob := vhPushBlob(w.s, "a", w.img2)
	vh.Assert(cBlob == 201, "C02.setup")
	vh.Assert(vhPutManifest(w.s, "a", dImg3.String(), types.MediaTypeOCI1Manifest, img3).Status() == 201 &&
		vhPutManifest(w.s, "a", dIdxA.String(), types.MediaTypeOCI1ManifestList, idxA).Status() == 201 &&
		vhPutManifest(w.s, "a", "tn", types.MediaTypeOCI1ManifestList, idxB).Status() == 201, "C02.setup")
	w.rec.names = nil
	items := []vhItem{
		{"a", w.dImg2.String(), w.img2, w.dImg2, ""},
		{"a", dImg3.String(), img3, dImg3, types.MediaTypeOCI1Manifest},
		{"a", dIdxA.String(), idxA, dIdxA, types.MediaTypeOCI1ManifestList},
		{"a", dIdxB.String(), idxB, dIdxB, types.MediaTypeOCI1ManifestList},
		{"a", "tn", idxB, dIdxB, types.MediaTypeOCI1ManifestList},
		{"a", dEmpty.String(), []byte{}, dEmpty, ""},
		{"a", w.dConf.String(), w.conf, w.dConf, ""},
		{"a", w.dLayer.String(), w.layer, w.dLayer, ""},
		{"a", w.dImg1.String(), w.img1, w.dImg1, types.MediaTypeOCI1Manifest},
		{"a", "t1", w.img1, w.dImg1, types.MediaTypeOCI1Manifest},
		{"a", w.dArt1.String(), w.art1, w.dArt1, types.MediaTypeOCI1Manifest},
		{"a", w.dIdx1.String(), w.idx1, w.dIdx1, types.MediaTypeOCI1ManifestList},
		{"a", "ti", w.idx1, w.dIdx1, types.MediaTypeOCI1ManifestList},
		{"b", w.dOther.String(), w.other, w.dOther, ""},
	}
	r := w.vhAnyRequest(vh.Param("REPOS", 2), vh.Param("METHODS", 6))
	rec := w.do(r)
	code := rec.Status()
	vh.Note(r.method + " " + r.path + " -> " + strconv.Itoa(code))
	// what the request explicitly deleted or replaced
	var keep []vhItem
	for _, it := range items {
		gone := false
		if it.repo == r.repo && code == 202 && r.method == "DELETE" {
			switch r.route {
			case "manifests":
				// by tag: only that tag; by digest: the manifest and its tags
				if it.mt != "" && (it.ref == r.ref || it.dig.String() == r.ref) {
					gone = true
				}
			case "blobs":
				if it.dig.String() == r.ref {
					gone = true
				}
			}
		}
		if it.repo == r.repo && r.route == "manifests" && r.method == "PUT" && code == 201 && it.ref == r.ref {
			// tag moved (or same manifest re-pushed): the new content is what was acknowledged
			it.bytes = r.body
			it.dig = digest.Canonical.FromBytes(r.body)
			if ct := r.hdr.Get("Content-Type"); ct != "" {
				it.mt = ct
			} else {
				it.mt = types.MediaTypeDetect(r.body)
			}
		}
		if !gone {
			keep = append(keep, it)
		}
	}
	if r.method == "PUT" && r.route == "manifests" && code == 201 {
		vh.Cover("C02.after-push")
		// the push itself was acknowledged: it reads back too (a new tag, possibly on a
		// manifest that is already stored, or a push by digest)
		fresh := true
		for _, it := range keep {
			if it.repo == r.repo && it.ref == r.ref {
				fresh = false
			}
		}
		if fresh {
			mt := r.hdr.Get("Content-Type")
			if mt == "" {
				mt = types.MediaTypeDetect(r.body)
			}
			keep = append(keep, vhItem{r.repo, r.ref, r.body, digest.Canonical.FromBytes(r.body), mt})
			vh.Cover("C02.new-reference-read-back")
		}
	}
	if r.method == "DELETE" && code == 202 {
		vh.Cover("C02.after-delete")
	}
	restart := st == config.StoreDir && vh.Bool("restart")
	if restart {
		_ = w.s.Close()
		w.s = New(conf)
		vh.Cover("C02.after-restart")
	}
	acc := vh.Choice("accept", vh.Param("ACCEPTS", 4))
	// the nested-index items (the first four) are read after a restart or after a request
	// that changed repository a; other paths cannot affect them (cost cut, stated)
	nestedMatters := restart || (r.repo == "a" && (code == 201 || code == 202))
	for _, it := range keep {
		if !nestedMatters && (it.dig == dImg3 || it.dig == dIdxA || it.dig == dIdxB) {
			continue
		}
		vhReadBack(w.s, it, acc)
	}
	vh.Cover("C02.readback-end")
}
