package olareg

// C09: a crash at any file-system step loses nothing acknowledged and tears nothing.

import (
	"context"
	"encoding/json"
	"errors"
	"strconv"
	"strings"
	"time"

	digest "github.com/opencontainers/go-digest"

	"github.com/olareg/olareg/config"
	"github.com/olareg/olareg/internal/verifenv/vh"
	"github.com/olareg/olareg/internal/verifenv/vos"
	"github.com/olareg/olareg/types"
)

// vhBlobFilesIntact: every file blobs/<alg>/<hex> hashes to its name.
func vhBlobFilesIntact() bool {
	for _, p := range vos.List(vhRoot) {
		i := strings.Index(p, "/blobs/")
		if i < 0 || strings.HasSuffix(p, "/") {
			continue
		}
		rest := strings.Split(p[i+len("/blobs/"):], "/")
		if len(rest) != 2 {
			return false
		}
		alg := digest.Algorithm(rest[0])
		if !alg.Available() || alg.FromBytes(vos.Bytes(p)).Encoded() != rest[1] {
			return false
		}
	}
	return true
}

// vhLayoutFilesIntact: no half-written layout file survives the crash: every index.json
// parses as an index of schema version 2 and every oci-layout as a layout document
// (transient temp files of an interrupted save, index.json.<n>, are not layout files).
func vhLayoutFilesIntact() bool {
	for _, p := range vos.List(vhRoot) {
		switch {
		case strings.HasSuffix(p, "/index.json"):
			var ix types.Index
			if json.Unmarshal(vos.Bytes(p), &ix) != nil || ix.SchemaVersion != 2 {
				return false
			}
		case strings.HasSuffix(p, "/oci-layout") && vos.Exists(strings.TrimSuffix(p, "oci-layout")+"index.json"):
			// (a torn oci-layout next to NO index is the interrupted creation of a
			// repository that holds nothing; repoInit rewrites an invalid layout file at
			// the next write and the repository reads as absent until then: not a
			// half-written blob or index in the sense of the property)
			var l struct {
				Version string `json:"imageLayoutVersion"`
			}
			if json.Unmarshal(vos.Bytes(p), &l) != nil || l.Version == "" {
				return false
			}
		}
	}
	return true
}

// vhReposLoad: every repository opens and its index loads without error, asked of the
// store itself (the tag listing answers 404 for any load error).
func vhReposLoad(s *Server, repos []string) bool {
	for _, name := range repos {
		repo, err := s.store.RepoGet(context.Background(), name)
		if err != nil {
			if errors.Is(err, types.ErrNotFound) {
				continue
			}
			return false
		}
		_, err = repo.IndexGet()
		repo.Done()
		if err != nil {
			return false
		}
	}
	return true
}

type vhC09World struct {
	conf, layer, other      []byte
	img1, img2, art1        []byte
	dConf, dLayer, dOther   digest.Digest
	dImg1, dImg2, dArt1     digest.Digest
}

func vhC09Docs() *vhC09World {
	w := &vhC09World{conf: []byte("{}"), layer: []byte("xy"), other: []byte("garbage")}
	w.dConf, w.dLayer, w.dOther = digest.Canonical.FromBytes(w.conf), digest.Canonical.FromBytes(w.layer), digest.Canonical.FromBytes(w.other)
	cd := vhDesc(types.MediaTypeOCI1ImageConfig, w.conf)
	ld := vhDesc(types.MediaTypeOCI1Layer, w.layer)
	w.img1 = vhImage(cd, []types.Descriptor{ld}, nil, "", nil)
	w.img2 = vhImage(cd, []types.Descriptor{ld}, nil, "", map[string]string{"v": "2"})
	w.dImg1, w.dImg2 = digest.Canonical.FromBytes(w.img1), digest.Canonical.FromBytes(w.img2)
	subj := vhDesc(types.MediaTypeOCI1Manifest, w.img1)
	w.art1 = vhImage(vhDesc(types.MediaTypeOCI1Empty, w.conf), []types.Descriptor{ld}, &subj, "application/vnd.test.at1", nil)
	w.dArt1 = digest.Canonical.FromBytes(w.art1)
	return w
}

// VH_C09_Crash: one operation interrupted at a symbolic file-system primitive.
func VH_C09_Crash() {
	vhReset()
	w := vhC09Docs()
	conf := vhConf(config.StoreDir)
	conf.Storage.GC.Frequency = time.Second
	conf.Storage.GC.GracePeriod = -1
	conf.Storage.GC.Untagged = vhBoolPtr(true)
	// prefix (concrete, memoised): image under two tags, an untagged second image, a
	// loose blob, all acknowledged
	tree := vh.Memo("c09-prefix", func() string {
		s := New(conf)
		vhPushBlob(s, "a", w.conf)
		vhPushBlob(s, "a", w.layer)
		vhPushBlob(s, "a", w.other)
		vhPutManifest(s, "a", "t1", types.MediaTypeOCI1Manifest, w.img1)
		vhPutManifest(s, "a", "t2", types.MediaTypeOCI1Manifest, w.img1)
		vhPutManifest(s, "a", "t3", types.MediaTypeOCI1Manifest, w.img2)
		_ = s.Close()
		return vos.Dump()
	})
	vhReset()
	vos.Restore(tree)
	digs := []digest.Digest{w.dConf, w.dLayer, w.dOther, w.dImg1, w.dImg2, w.dArt1}
	tags := []string{"t1", "t2", "t3", "tnew"}
	repos := []string{"a", "n"}
	s := New(conf)
	before := vhSnapshot(s, repos, digs, tags)
	pre := vos.Clone()
	op := vh.Choice("op", 11)
	names := []string{"first-upload-new-repo", "manifest-put-new-tag", "artifact-put", "tag-move", "delete-tag", "delete-digest", "blob-delete", "upload-cancel", "collection", "re-upload-of-referenced-layer-by-session", "re-push-of-tagged-manifest"}
	vh.Tag("op", names[op])
	run := func(s *Server) {
		switch op {
		case 0:
			vhPushBlob(s, "n", w.layer)
		case 1:
			vhPutManifest(s, "a", "tnew", types.MediaTypeOCI1Manifest, w.img2)
		case 2:
			vhPutManifest(s, "a", w.dArt1.String(), types.MediaTypeOCI1Manifest, w.art1)
		case 3:
			vhPutManifest(s, "a", "t1", types.MediaTypeOCI1Manifest, w.img2)
		case 4:
			vhDo(s, "DELETE", "/v2/a/manifests/t2", nil, nil, nil)
		case 5:
			vhDo(s, "DELETE", "/v2/a/manifests/"+w.dImg2.String(), nil, nil, nil)
		case 6:
			vhDo(s, "DELETE", "/v2/a/blobs/"+w.dOther.String(), nil, nil, nil)
		case 7:
			r := vhDo(s, "POST", "/v2/a/blobs/uploads/", nil, nil, nil)
			vhDo(s, "DELETE", "/v2/a/blobs/uploads/"+vhSessionID(r), nil, nil, nil)
		case 8:
			vhTick()
		case 9:
			// the layer of the tagged images is uploaded again through a session
			r := vhDo(s, "POST", "/v2/a/blobs/uploads/", nil, nil, nil)
			vhDo(s, "PUT", "/v2/a/blobs/uploads/"+vhSessionID(r), vhQ("state", vhStateToken(0), "digest", w.dLayer.String()), nil, w.layer)
		case 10:
			// the tagged manifest is pushed again under its tag
			vhPutManifest(s, "a", "t1", types.MediaTypeOCI1Manifest, w.img1)
		}
	}
	k := vh.Choice("crashAt", vh.Param("CRASHPOINTS", 14))
	tear := []int{-1, 0, 1, 30}[vh.Choice("tear", 4)]
	vos.CrashAt(k, tear)
	func() {
		defer func() {
			if r := recover(); r != nil {
				if _, ok := r.(vos.Crash); !ok {
					panic(r)
				}
			}
		}()
		run(s)
	}()
	crashed := vos.S.Crashed
	vos.Disarm()
	if crashed {
		vh.Cover("C09.crashed")
		vh.Tag("crashAt", strconv.Itoa(k))
	}
	// restart
	s2 := New(conf)
	for _, repo := range []string{"a", "n"} {
		tl := vhDo(s2, "GET", "/v2/"+repo+"/tags/list", nil, nil, nil)
		vh.Assert(!tl.Panicked && (tl.Status() == 200 || tl.Status() == 404), "C09.repository-does-not-load")
	}
	vh.Assert(vhDo(s2, "GET", "/v2/a/tags/list", nil, nil, nil).Status() == 200, "C09.repository-does-not-load")
	vh.Assert(vhBlobFilesIntact(), "C09.blob-file-does-not-hash-to-name")
	vh.Assert(vhLayoutFilesIntact(), "C09.half-written-layout-file")
	vh.Assert(vhReposLoad(s2, []string{"a", "n"}), "C09.repository-does-not-load")
	// every tag resolves to an intact manifest
	for _, t := range tags {
		m := vhGetManifest(s2, "a", t)
		if m.Status() == 200 {
			vh.Assert(vhBytesEq(m.Body, w.img1) || vhBytesEq(m.Body, w.img2), "C09.tag-points-to-torn-manifest")
			vh.Assert(vhGetBlob(s2, "a", w.dConf).Status() == 200 && vhGetBlob(s2, "a", w.dLayer).Status() == 200, "C09.tag-points-to-missing-content")
		} else {
			vh.Assert(m.Status() == 404, "C09.tag-read-error")
		}
	}
	// acknowledged operations of the prefix that the interrupted operation does not touch
	if op != 3 {
		vh.Assert(vhBytesEq(vhGetManifest(s2, "a", "t1").Body, w.img1), "C09.acknowledged-tag-lost")
	}
	if op != 4 {
		vh.Assert(vhBytesEq(vhGetManifest(s2, "a", "t2").Body, w.img1), "C09.acknowledged-tag-lost")
	}
	if op != 5 && op != 8 {
		vh.Assert(vhBytesEq(vhGetManifest(s2, "a", "t3").Body, w.img2), "C09.acknowledged-tag-lost")
	}
	// the interrupted request is absent or present as a whole
	after := vhSnapshot(s2, repos, digs, tags)
	if after != before {
		// compare with an uninterrupted run from the same pre-state (the servers are
		// abandoned, not closed: Close runs a collection, which the crashed process
		// never did)
		vos.Use(pre)
		vos.Disarm()
		s3 := New(conf)
		run(s3)
		s4 := New(conf)
		whole := vhSnapshot(s4, repos, digs, tags)
		vh.Assert(after == whole, "C09.interrupted-request-half-applied")
		vh.Cover("C09.applied-as-a-whole")
	} else {
		vh.Cover("C09.absent")
	}
	vh.Cover("C09.crash-end")
}
