package olareg

// C19 (server side): routing follows the switches exactly; the rate limit is per
// address and per accounting second.

import (
	"net/http"
	"strconv"
	"time"

	"github.com/olareg/olareg/config"
	"github.com/olareg/olareg/internal/verifenv/vclock"
	"github.com/olareg/olareg/internal/verifenv/vh"
	"github.com/olareg/olareg/internal/verifenv/vhttp"
)

// VH_C19_Routing: which handler a request reaches under every switch combination.
func VH_C19_Routing() {
	vhReset()
	st := config.StoreMem
	if vh.Bool("dir") {
		st = config.StoreDir
	}
	conf := vhConf(st)
	push, del, blobDel, ref := vh.Bool("push"), vh.Bool("delete"), vh.Bool("blobDelete"), vh.Bool("referrer")
	conf.API.PushEnabled, conf.API.DeleteEnabled, conf.API.Blob.DeleteEnabled, conf.API.Referrer.Enabled = &push, &del, &blobDel, &ref
	nWarn := vh.Choice("warnings", 3)
	conf.API.Warnings = []string{"w1", "w2"}[:nWarn]
	s := New(conf)
	method := vhMethods[vh.Choice("method", len(vhMethods))]
	route := vh.Choice("route", 7)
	dg := "sha256:e3b0c44298fc1c149afbf4c8996fb92427ae41e4649b934ca495991b7852b855"
	paths := []string{"/v2/", "/v2/a/manifests/t1", "/v2/a/blobs/" + dg, "/v2/a/blobs/uploads/", "/v2/a/blobs/uploads/someid", "/v2/a/referrers/" + dg, "/v2/a/tags/list"}
	rec := vhDo(s, method, paths[route], nil, nil, nil)
	code := rec.Status()
	vh.Tag("route", strconv.Itoa(route))
	vh.Tag("method", method)
	vh.Assert(!rec.Panicked, "C19.nopanic")
	read := method == "GET" || method == "HEAD"
	// the documented table: allowed = the request reaches its handler
	allowed, notFound := false, false
	switch route {
	case 0:
		allowed = read
		notFound = !read
	case 1:
		allowed = read || (method == "PUT" && vh.ConcreteBool(push)) || (method == "DELETE" && vh.ConcreteBool(del))
	case 2:
		allowed = read || (method == "DELETE" && vh.ConcreteBool(del) && vh.ConcreteBool(blobDel))
	case 3:
		// /blobs/uploads/ is also the blob route with the pseudo digest "uploads"
		allowed = read || (method == "POST" && vh.ConcreteBool(push)) || (method == "DELETE" && vh.ConcreteBool(del) && vh.ConcreteBool(blobDel))
	case 4:
		if vh.ConcreteBool(push) {
			allowed = method == "PATCH" || method == "PUT" || method == "GET" || method == "DELETE"
		} else {
			notFound = true
		}
	case 5:
		if vh.ConcreteBool(ref) {
			allowed = read
		} else {
			notFound = true
		}
	case 6:
		allowed = read
		notFound = !read
	}
	switch {
	case allowed:
		vh.Assert(code != http.StatusMethodNotAllowed, "C19.enabled-request-refused-405")
		vh.Cover("C19.routed")
	case notFound:
		vh.Assert(code == http.StatusNotFound && len(rec.Body) == 0, "C19.disabled-route-not-404")
		vh.Cover("C19.route-off")
	default:
		vh.Assert(code == http.StatusMethodNotAllowed, "C19.disabled-method-not-405")
		vh.Cover("C19.method-off")
	}
	// every response carries the API version header and one Warning per configured warning
	vh.Assert(rec.HeaderMap.Get("Docker-Distribution-API-Version") == "registry/2.0", "C19.api-version-header")
	vh.Assert(len(rec.HeaderMap.Values("Warning")) == nWarn, "C19.warning-headers")
	if nWarn > 0 {
		vh.Assert(rec.HeaderMap.Values("Warning")[0] == "299 - \"w1\"", "C19.warning-headers")
	}
	vh.Cover("C19.routing-end")
}

// VH_C19_RateLimit: k requests from two addresses against a reference model.
func VH_C19_RateLimit() {
	vhReset()
	conf := vhConf(config.StoreMem)
	limit := vh.Concrete(vh.Choice("limit", 4)) // 0 = no limit
	conf.API.RateLimit = limit
	// the warnings setting is independent of the rate limit: every response carries them
	nWarn := vh.Choice("warnings", 2)
	conf.API.Warnings = []string{"w1", "w2"}[:nWarn*2]
	s := New(conf)
	type win struct {
		first int64
		count int
		open  bool
	}
	model := map[string]*win{}
	served := map[string]int{}
	k := vh.Param("K", 4)
	// two IPv4 clients (directly or through a proxy header), or two IPv6 clients of one
	// network connecting directly (RemoteAddr "[addr]:port")
	fam := vh.Choice("family", 3)
	vh.Tag("family", []string{"ipv4", "ipv6-same-network", "ipv6-loopback-and-mapped"}[fam])
	addrs := [][]string{{"10.0.0.1", "10.0.0.2"}, {"[2001:db8::1]", "[2001:db8::2]"}, {"[::1]", "[::ffff:192.0.2.9]"}}[fam]
	for n := 0; n < k; n++ {
		addr := addrs[vh.Choice("addr", 2)]
		req := vhttp.Request("GET", "/v2/", nil, nil, nil, 0)
		via := 0
		if fam == 0 {
			via = vh.Choice("via", 3)
		}
		switch via {
		case 0:
			req.RemoteAddr = addr + ":4711"
		case 1:
			req.Header.Set("X-Forwarded-For", addr)
			req.RemoteAddr = "192.0.2.9:1"
		case 2:
			req.Header.Set("X-Forwarded-For", addr+", 172.16.0.1")
			req.RemoteAddr = "192.0.2.9:1"
		}
		// the handler's own reading of the clock is the first one of the request
		vclock.ArmOnce()
		mark := len(vclock.Log)
		rec := vhttp.Serve(s, req)
		vh.Assert(!rec.Panicked, "C19.nopanic")
		vh.Assert(len(rec.HeaderMap.Values("Warning")) == nWarn*2 && rec.HeaderMap.Get("Docker-Distribution-API-Version") == "registry/2.0", "C19.warning-or-version-header-depends-on-rate-limit")
		now := vclock.LastNs()
		if len(vclock.Log) > mark {
			now = vclock.Log[mark]
		}
		if limit == 0 {
			vh.Assert(rec.Status() == 200, "C19.unlimited-throttled")
			continue
		}
		w := model[addr]
		if w == nil {
			w = &win{}
			model[addr] = w
		}
		if !w.open || vh.ConcreteBool(now-w.first > int64(time.Second)) {
			w.open, w.first, w.count = true, now, 1
		} else {
			w.count++
		}
		if w.count > limit {
			vh.Assert(rec.Status() == http.StatusTooManyRequests && rec.HeaderMap.Get("Retry-After") == "1", "C19.over-limit-served")
			vh.Cover("C19.throttled")
		} else {
			vh.Assert(rec.Status() == 200, "C19.within-limit-throttled")
			served[addr]++
		}
	}
	vh.Cover("C19.ratelimit-end")
}
