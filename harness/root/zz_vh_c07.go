package olareg

// C07: referrers responses list exactly the manifests that have the subject.

import (
	"context"
	"encoding/json"
	"net/url"
	"strconv"
	"strings"

	digest "github.com/opencontainers/go-digest"

	"github.com/olareg/olareg/config"
	"github.com/olareg/olareg/internal/verifenv/vh"
	"github.com/olareg/olareg/types"
)

func vhRefDescs(m int) []types.Descriptor {
	all := []types.Descriptor{
		{MediaType: types.MediaTypeOCI1Manifest, Digest: digest.Canonical.FromBytes([]byte("r0")), Size: 10, ArtifactType: "application/vnd.test.at1"},
		{MediaType: types.MediaTypeOCI1Manifest, Digest: digest.Canonical.FromBytes([]byte("r1")), Size: 2000, ArtifactType: "application/vnd.test.at2", Annotations: map[string]string{"k": "a-much-longer-annotation-value"}},
		{MediaType: types.MediaTypeOCI1ManifestList, Digest: digest.Canonical.FromBytes([]byte("r2")), Size: 3, ArtifactType: "application/vnd.test.at1", Annotations: map[string]string{"a": "b"}},
		{MediaType: types.MediaTypeOCI1Manifest, Digest: digest.Canonical.FromBytes([]byte("r3")), Size: 44, ArtifactType: "application/vnd.test.at1"},
	}
	return all[:m]
}

func vhRespBytes(descs []types.Descriptor) []byte {
	i := types.Index{SchemaVersion: 2, MediaType: types.MediaTypeOCI1ManifestList, Manifests: descs}
	if descs == nil {
		i.Manifests = []types.Descriptor{}
	}
	b, _ := json.Marshal(i)
	return b
}

func vhDecodeIndex(b []byte) (types.Index, bool) {
	i := types.Index{}
	err := json.Unmarshal(b, &i)
	return i, err == nil
}

// VH_C07_Split: referrerSplit for any limit (full int64), referrerFilter for any type.
func VH_C07_Split() {
	m := vh.Concrete(vh.Choice("m", 5))
	descs := vhRefDescs(m)
	in := vhRespBytes(descs)
	if vh.Bool("filter") {
		at := vh.Str("at", "application/vnd.test.at1", "application/vnd.test.at2", "unknown/type", "")
		out, err := referrerFilter(in, at)
		vh.Assert(err == nil, "C07.filter-error")
		oi, ok := vhDecodeIndex(out)
		vh.Assert(ok && oi.MediaType == types.MediaTypeOCI1ManifestList && oi.SchemaVersion == 2, "C07.filter-header")
		k := 0
		for _, d := range descs {
			if d.ArtifactType == at {
				vh.Assert(k < len(oi.Manifests) && oi.Manifests[k].Digest == d.Digest && oi.Manifests[k].ArtifactType == at, "C07.filter-exact-subset-in-order")
				k++
			}
		}
		vh.Assert(k == len(oi.Manifests), "C07.filter-exact-subset-in-order")
		vh.Cover("C07.filter-end")
		return
	}
	limit := vh.Int64("limit")
	pages, err := referrerSplit(in, limit)
	// which descriptors fit alone
	var expect []digest.Digest
	dropped := false
	for _, d := range descs {
		single := int64(len(vhRespBytes([]types.Descriptor{d})))
		if vh.ConcreteBool(single <= limit) {
			expect = append(expect, d.Digest)
		} else {
			dropped = true
		}
	}
	vh.Assert((err != nil) == dropped, "C07.split-error-iff-dropped")
	k := 0
	for _, p := range pages {
		vh.Assert(int64(len(p)) <= limit, "C07.split-page-within-limit")
		pi, ok := vhDecodeIndex(p)
		vh.Assert(ok && pi.MediaType == types.MediaTypeOCI1ManifestList && pi.SchemaVersion == 2, "C07.split-header")
		vh.Assert(len(pi.Manifests) > 0, "C07.split-empty-page")
		for _, d := range pi.Manifests {
			vh.Assert(k < len(expect) && d.Digest == expect[k], "C07.split-union-in-order-once")
			k++
		}
	}
	vh.Assert(k == len(expect), "C07.split-union-complete")
	if len(pages) > 1 {
		vh.Cover("C07.split-multipage")
	}
	if dropped {
		vh.Cover("C07.split-dropped")
	}
	vh.Cover("C07.split-end")
}

type vhArt struct {
	body []byte
	dig  digest.Digest
	desc types.Descriptor // expected referrers entry
	subj digest.Digest
}

// vhArtifact builds an artifact image manifest for subject with pulled-up fields.
func vhArtifact(n int, subj types.Descriptor, withArtifactType bool) vhArt {
	conf := []byte("{}")
	cfg := vhDesc("application/vnd.test.config"+strconv.Itoa(n%2), conf)
	at := ""
	if withArtifactType {
		at = "application/vnd.test.at" + strconv.Itoa(1+n%2)
	}
	ann := map[string]string{"n": strings.Repeat("v", 1+n*7)}
	body := vhImage(cfg, []types.Descriptor{vhDesc(types.MediaTypeOCI1Layer, []byte("xy"))}, &subj, at, ann)
	d := digest.Canonical.FromBytes(body)
	exp := types.Descriptor{MediaType: types.MediaTypeOCI1Manifest, Digest: d, Size: int64(len(body)), ArtifactType: at, Annotations: ann}
	if at == "" {
		exp.ArtifactType = cfg.MediaType // falls back to the config media type
	}
	return vhArt{body: body, dig: d, desc: exp, subj: subj.Digest}
}

func vhDescEq(a, b types.Descriptor) bool {
	if a.MediaType != b.MediaType || a.Digest != b.Digest || a.Size != b.Size || a.ArtifactType != b.ArtifactType || len(a.Annotations) != len(b.Annotations) {
		return false
	}
	for k, v := range a.Annotations {
		if b.Annotations[k] != v {
			return false
		}
	}
	return true
}

// vhResponseDigest returns the digest of the stored referrers response for subject.
func vhResponseDigest(s *Server, repo string, subject digest.Digest) string {
	r, err := s.store.RepoGet(context.Background(), repo)
	if err != nil {
		return ""
	}
	defer r.Done()
	idx, err := r.IndexGet()
	if err != nil {
		return ""
	}
	d, err := idx.GetByAnnotation(types.AnnotReferrerSubject, subject.String())
	if err != nil {
		return ""
	}
	return d.Digest.String()
}

func vhNextLink(link string) (string, url.Values, bool) {
	if link == "" {
		return "", nil, false
	}
	i, j := strings.Index(link, "<"), strings.Index(link, ">")
	if i != 0 || j < 0 || !strings.HasSuffix(link, "; rel=next") {
		return "", nil, false
	}
	u := link[1:j]
	p, rq, _ := strings.Cut(u, "?")
	q, err := url.ParseQuery(rq)
	if err != nil {
		return "", nil, false
	}
	return p, q, true
}

// VH_C07_Get: referrers GET with any limit, page, cache digest, filter, subject, repository.
func VH_C07_Get() {
	vhReset()
	conf := vhConf(vhStore("dir"))
	limit := vh.Int64("limit")
	conf.API.Referrer.Limit = limit
	s := New(conf)
	img1, _ := vhTwoImages(s, "a")
	vhPutManifest(s, "a", "t1", types.MediaTypeOCI1Manifest, img1)
	subj := vhDesc(types.MediaTypeOCI1Manifest, img1)
	m := vh.Concrete(vh.Choice("m", vh.Param("M", 4)))
	var arts []vhArt
	for k := 0; k < m; k++ {
		a := vhArtifact(k, subj, k != 3) // at1, at2, at1, (config fallback), at1
		r := vhPutManifest(s, "a", a.dig.String(), types.MediaTypeOCI1Manifest, a.body)
		vh.Assert(r.Status() == 201 && r.HeaderMap.Get("OCI-Subject") == subj.Digest.String(), "C07.setup")
		arts = append(arts, a)
	}
	// the page cache may be warm: an earlier listing of the same subject, unfiltered or
	// filtered, has been served since the last change
	switch vh.Choice("warm", 3) {
	case 1:
		vhDo(s, "GET", "/v2/a/referrers/"+subj.Digest.String(), nil, nil, nil)
		vh.Tag("warm", "unfiltered-listing-before")
	case 2:
		vhDo(s, "GET", "/v2/a/referrers/"+subj.Digest.String(), vhQ("artifactType", "application/vnd.test.at1"), nil, nil)
		vh.Tag("warm", "filtered-listing-before")
	}
	effLimit := limit
	if vh.ConcreteBool(limit == 0) {
		effLimit = 4 * 1024 * 1024
	}
	repo := vh.Str("repo", "a", "zz", "index.json")
	subject := vh.Str("subject", subj.Digest.String(), digest.Canonical.FromBytes([]byte("nosubject")).String(), vhBadDigest)
	q := url.Values{}
	filter := ""
	if f := vh.Choice("filter", 4); f > 0 {
		filter = []string{"", "application/vnd.test.at1", "application/vnd.test.at2", "unknown/type"}[f]
		q.Set("artifactType", filter)
	}
	pageStr := ""
	if vh.Bool("hasPage") {
		pageStr = vh.IntMarker("page")
		q.Set("page", pageStr)
	}
	cur := vhResponseDigest(s, "a", subj.Digest)
	switch vh.Choice("cache", 4) {
	case 1:
		if cur != "" {
			q.Set("cache", cur)
		}
	case 2:
		q.Set("cache", digest.Canonical.FromBytes([]byte("stale")).String())
	case 3:
		q.Set("cache", vhBadDigest)
	}
	// expected list (in push order)
	var expect []types.Descriptor
	known := repo == "a" && subject == subj.Digest.String()
	if known {
		for _, a := range arts {
			if filter == "" || a.desc.ArtifactType == filter {
				expect = append(expect, a.desc)
			}
		}
	}
	path := "/v2/" + repo + "/referrers/" + subject
	seen := map[digest.Digest]bool{}
	var got []types.Descriptor
	first := true
	startPage := int64(0)
	for hop := 0; hop < 7; hop++ {
		rec := vhDo(s, "GET", path, q, nil, nil)
		vh.Assert(!rec.Panicked, "C07.nopanic")
		if first && q.Get("cache") == vhBadDigest && pageStr != "" {
			// a malformed cache digest with a non-zero page is the one refusal
			if rec.Status() == 400 {
				vh.Cover("C07.bad-cache-refused")
				return
			}
		}
		vh.Assert(rec.Status() == 200, "C07.status-200")
		vh.Assert(types.MediaTypeBase(rec.HeaderMap.Get("Content-Type")) == types.MediaTypeOCI1ManifestList, "C07.content-type")
		idx, ok := vhDecodeIndex(rec.Body)
		vh.Assert(ok && idx.MediaType == types.MediaTypeOCI1ManifestList, "C07.body-is-index")
		vh.Assert(int64(len(rec.Body)) <= effLimit || len(idx.Manifests) == 0, "C07.page-within-limit")
		if first && known && filter != "" && len(arts) > 0 {
			vh.Assert(rec.HeaderMap.Get("OCI-Filters-Applied") == "artifactType", "C07.filters-applied-header")
		}
		if first && filter == "" {
			vh.Assert(rec.HeaderMap.Get("OCI-Filters-Applied") == "", "C07.filters-applied-header")
		}
		for _, d := range idx.Manifests {
			vh.Assert(!seen[d.Digest], "C07.chain-duplicate")
			seen[d.Digest] = true
			got = append(got, d)
		}
		if first && pageStr != "" {
			pv, _ := strconv.ParseInt(pageStr, 10, 64)
			if vh.ConcreteBool(pv > 0) && q.Get("cache") == cur && cur != "" {
				startPage = 1 // started somewhere inside the chain
			}
		}
		first = false
		np, nq, more := vhNextLink(rec.HeaderMap.Get("Link"))
		if !more {
			break
		}
		vh.Assert(np == path, "C07.link-path")
		q = nq
		vh.Cover("C07.followed-link")
	}
	// every listed descriptor is an expected one with the pulled-up fields
	for _, d := range got {
		found := false
		for _, e := range expect {
			if e.Digest == d.Digest {
				found = vhDescEq(e, d)
			}
		}
		vh.Assert(found, "C07.listed-not-expected")
	}
	if startPage == 0 {
		// from the first page on: everything that fits alone, in order
		k := 0
		for _, e := range expect {
			single := int64(len(vhRespBytes([]types.Descriptor{e})))
			if single <= effLimit {
				vh.Assert(k < len(got) && got[k].Digest == e.Digest, "C07.chain-union-complete")
				k++
			}
		}
		vh.Assert(k == len(got), "C07.chain-union-complete")
		if len(got) > 0 {
			vh.Cover("C07.listed")
		}
	}
	vh.Cover("C07.get-end")
}

// VH_C07_Maintain: the response follows every push/delete of manifests with a subject.
func VH_C07_Maintain() {
	vhReset()
	st := vhStore("dir")
	conf := vhConf(st)
	s := New(conf)
	img1, img2 := vhTwoImages(s, "a")
	s1 := vhDesc(types.MediaTypeOCI1Manifest, img1)
	s2 := vhDesc(types.MediaTypeOCI1Manifest, img2) // never pushed: a missing subject
	sMissing := vhDesc(types.MediaTypeOCI1Manifest, []byte("never"))
	// artifacts: A0,A1 -> S1 ; A2 -> S2 ; A3 -> S1 (index artifact) ; A4 -> missing subject
	arts := []vhArt{vhArtifact(0, s1, true), vhArtifact(1, s1, false), vhArtifact(2, s2, true), {}, vhArtifact(4, sMissing, true)}
	ib := vhIndexDoc(nil, &s1, "application/vnd.test.idxart")
	arts[3] = vhArt{body: ib, dig: digest.Canonical.FromBytes(ib), subj: s1.Digest,
		desc: types.Descriptor{MediaType: types.MediaTypeOCI1ManifestList, Digest: digest.Canonical.FromBytes(ib), Size: int64(len(ib)), ArtifactType: "application/vnd.test.idxart"}}
	mts := []string{types.MediaTypeOCI1Manifest, types.MediaTypeOCI1Manifest, types.MediaTypeOCI1Manifest, types.MediaTypeOCI1ManifestList, types.MediaTypeOCI1Manifest}
	present := map[int]bool{}
	tagOf := map[string]int{} // tag -> artifact index
	childOf := map[int]bool{} // listed as a child by a present (tagged) index
	zombie := map[int]bool{}  // deleted by digest while a present index lists it as child
	push := func(k int, ref string) int {
		r := vhPutManifest(s, "a", ref, mts[k], arts[k].body)
		if r.Status() == 201 {
			present[k] = true
			if !strings.Contains(ref, ":") {
				tagOf[ref] = k
			}
		}
		return r.Status()
	}
	// prefix variants
	switch vh.Choice("prefix", 4) {
	case 0: // subject + one referrer pushed by tag
		vhPutManifest(s, "a", "t1", types.MediaTypeOCI1Manifest, img1)
		push(0, "ta0")
	case 1: // two referrers by digest
		vhPutManifest(s, "a", "t1", types.MediaTypeOCI1Manifest, img1)
		push(0, arts[0].dig.String())
		push(1, arts[1].dig.String())
	case 2: // referrer before its subject
		push(0, arts[0].dig.String())
		vhPutManifest(s, "a", "t1", types.MediaTypeOCI1Manifest, img1)
	case 3: // index artifact and an artifact under two tags
		vhPutManifest(s, "a", "t1", types.MediaTypeOCI1Manifest, img1)
		push(3, arts[3].dig.String())
		push(1, "ta1")
		push(1, "tb1")
	}
	steps := vh.Param("K", 1)
	for n := 0; n < steps; n++ {
		switch vh.Choice("op", 5) {
		case 0: // push an artifact by digest
			k := vh.Choice("art", len(arts))
			vh.Note("push by digest art" + strconv.Itoa(k))
			vh.Assert(push(k, arts[k].dig.String()) == 201, "C07.push")
		case 1: // push an artifact by tag (also moves tags between artifacts)
			k := vh.Choice("art", len(arts))
			t := vh.Str("tag", "ta0", "ta1", "tnew")
			vh.Note("push by tag " + t + " art" + strconv.Itoa(k))
			vh.Assert(push(k, t) == 201, "C07.push")
		case 2: // delete by tag
			t := vh.Str("tag", "ta0", "ta1", "tb1", "t1")
			vh.Note("delete tag " + t)
			r := vhDo(s, "DELETE", "/v2/a/manifests/"+t, nil, nil, nil)
			if r.Status() == 202 {
				delete(tagOf, t)
				vh.Tag("op", "delete-by-tag")
			}
		case 3: // delete by digest
			k := vh.Choice("art", len(arts))
			vh.Note("delete digest art" + strconv.Itoa(k))
			r := vhDo(s, "DELETE", "/v2/a/manifests/"+arts[k].dig.String(), nil, nil, nil)
			if r.Status() == 202 {
				present[k] = false
				if childOf[k] {
					zombie[k] = true
				}
				for t, x := range tagOf {
					if x == k {
						delete(tagOf, t)
					}
				}
			}
		case 4: // push (with a tag) a manifest whose bytes equal the stored response for S1
			cur := vhResponseDigest(s, "a", s1.Digest)
			if cur != "" {
				g := vhGetBlob(s, "a", digest.Digest(cur))
				if g.Status() == 200 {
					vh.Note("tag the response blob")
					pr := vhPutManifest(s, "a", "tresp", types.MediaTypeOCI1ManifestList, g.Body)
					vh.Tag("op", "tag-response-blob")
					if pr.Status() == 201 {
						// the response is now also an ordinary index whose children are the referrers
						for k, a := range arts {
							if a.subj == s1.Digest && present[k] {
								childOf[k] = true
							}
						}
					}
				}
			}
		}
		srv := s
		restarted := false
		if st == config.StoreDir && vh.Bool("restart") {
			_ = s.Close()
			s = New(conf)
			srv = s
			restarted = true
		}
		// oracle: for each subject the response = manifests present that name it
		for _, sub := range []types.Descriptor{s1, s2, sMissing} {
			r := vhDo(srv, "GET", "/v2/a/referrers/"+sub.Digest.String(), nil, nil, nil)
			vh.Assert(r.Status() == 200, "C07.status-200")
			idx, ok := vhDecodeIndex(r.Body)
			vh.Assert(ok, "C07.body-is-index")
			for k, a := range arts {
				if a.subj != sub.Digest {
					continue
				}
				// present means: still answered by digest
				g := vhGetManifest(srv, "a", a.dig.String())
				if zombie[k] && restarted {
					// a manifest deleted by digest while a present index lists it as a child:
					// children are rebuilt from their parent indexes when index.json is loaded
					vh.Tag("scenario", "deleted-child-of-present-index-after-restart")
				}
				vh.Assert((g.Status() == 200) == present[k], "C07.model-presence")
				present[k] = g.Status() == 200 // the listing is judged against what is served
				n := 0
				for _, d := range idx.Manifests {
					if d.Digest == a.dig {
						n++
						vh.Assert(vhDescEq(d, a.desc), "C07.descriptor-fields")
					}
				}
				if present[k] {
					vh.Assert(n == 1, "C07.present-artifact-listed-once")
					vh.Cover("C07.listed-present")
				} else {
					vh.Assert(n == 0, "C07.absent-artifact-listed")
				}
			}
			for _, d := range idx.Manifests {
				known := false
				for _, a := range arts {
					if a.dig == d.Digest && a.subj == sub.Digest {
						known = true
					}
				}
				vh.Assert(known, "C07.foreign-entry-listed")
			}
		}
		vh.Tag("op", "")
		vh.Tag("scenario", "")
	}
	vh.Cover("C07.maintain-end")
}
