package olareg

// VT_Server: translator validation at server level: a fixed sequence of ~70 requests
// (good and bad) against both stores; status, selected headers and body of every answer
// are noted and compared between the engine run and the native run.

import (
	"sort"
	"strconv"
	"strings"

	digest "github.com/opencontainers/go-digest"

	"github.com/olareg/olareg/config"
	"github.com/olareg/olareg/internal/verifenv/vh"
	"github.com/olareg/olareg/internal/verifenv/vhttp"
	"github.com/olareg/olareg/internal/verifenv/vos"
	"github.com/olareg/olareg/types"
)

func vtNote(tag string, r *vhttp.Recorder) {
	var hs []string
	for _, k := range []string{"Location", "Range", "Docker-Content-Digest", "Content-Type", "Content-Length", "Link", "Oci-Subject", "Oci-Filters-Applied", "Warning"} {
		if v := r.HeaderMap.Values(k); len(v) > 0 {
			hs = append(hs, k+"="+strings.Join(v, "|"))
		}
	}
	sort.Strings(hs)
	vh.Note(tag + " " + strconv.Itoa(r.Status()) + " " + strconv.FormatBool(r.Panicked) + " [" + strings.Join(hs, ";") + "] " + strings.ReplaceAll(string(r.Body), "\n", "\\n"))
}

func VT_Server() {
	for _, st := range []config.Store{config.StoreMem, config.StoreDir} {
		vhReset()
		conf := vhConf(st)
		conf.API.Warnings = []string{"w"}
		conf.API.Referrer.Limit = 700
		s := New(conf)
		w := vhNewWorld(conf, 0)
		do := func(tag, method, path string, q []string, hdr []string, body []byte) *vhttp.Recorder {
			r := vhDo(s, method, path, vhQ(q...), vhHdr(hdr...), body)
			vtNote(tag, r)
			return r
		}
		do("ping", "GET", "/v2/", nil, nil, nil)
		do("ping-head", "HEAD", "/v2", nil, nil, nil)
		do("notfound", "GET", "/v3/", nil, nil, nil)
		do("blob-mono", "POST", "/v2/a/blobs/uploads/", []string{"digest", w.dConf.String()}, nil, w.conf)
		do("blob-mono-bad", "POST", "/v2/a/blobs/uploads/", []string{"digest", w.dLayer.String()}, nil, w.conf)
		r := do("post", "POST", "/v2/a/blobs/uploads/", []string{"digest-algorithm", "sha512"}, nil, nil)
		id := vhSessionID(r)
		do("patch", "PATCH", "/v2/a/blobs/uploads/"+id, []string{"state", vhStateToken(0)}, []string{"Content-Range", "0-0"}, []byte("x"))
		do("patch-stale", "PATCH", "/v2/a/blobs/uploads/"+id, []string{"state", vhStateToken(0)}, nil, []byte("y"))
		do("patch-range", "PATCH", "/v2/a/blobs/uploads/"+id, []string{"state", vhStateToken(1)}, []string{"Content-Range", "5-9"}, []byte("y"))
		do("status", "GET", "/v2/a/blobs/uploads/"+id, nil, nil, nil)
		do("put", "PUT", "/v2/a/blobs/uploads/"+id, []string{"state", vhStateToken(1), "digest", digest.SHA512.FromBytes(w.layer).String()}, nil, []byte("y"))
		do("put-again", "PUT", "/v2/a/blobs/uploads/"+id, []string{"state", vhStateToken(2), "digest", w.dLayer.String()}, nil, nil)
		do("layer", "POST", "/v2/a/blobs/uploads/", []string{"digest", w.dLayer.String()}, nil, w.layer)
		do("mount", "POST", "/v2/b/blobs/uploads/", []string{"mount", w.dLayer.String(), "from", "a"}, nil, nil)
		do("mount-bad", "POST", "/v2/b/blobs/uploads/", []string{"mount", w.dOther.String(), "from", "../a"}, nil, nil)
		do("blob-get", "GET", "/v2/b/blobs/"+w.dLayer.String(), nil, nil, nil)
		do("blob-head", "HEAD", "/v2/a/blobs/"+digest.SHA512.FromBytes(w.layer).String(), nil, nil, nil)
		do("blob-404", "GET", "/v2/a/blobs/"+w.dOther.String(), nil, nil, nil)
		do("blob-bad", "GET", "/v2/a/blobs/sha256:zz", nil, nil, nil)
		do("put-img", "PUT", "/v2/a/manifests/t1", nil, []string{"Content-Type", types.MediaTypeOCI1Manifest}, w.img1)
		do("put-img-ct", "PUT", "/v2/a/manifests/t2", nil, []string{"Content-Type", types.MediaTypeOCI1ManifestList}, w.img1)
		do("put-img2", "PUT", "/v2/a/manifests/"+w.dImg2.String(), []string{"digest", w.dImg1.String()}, nil, w.img2)
		do("put-missing", "PUT", "/v2/b/manifests/t1", nil, []string{"Content-Type", types.MediaTypeOCI1Manifest}, w.img1)
		do("put-bad", "PUT", "/v2/a/manifests/-x", nil, nil, []byte("{"))
		do("put-idx", "PUT", "/v2/a/manifests/ti", nil, []string{"Content-Type", types.MediaTypeOCI1ManifestList + "; charset=utf-8"}, w.idx1)
		do("put-art", "PUT", "/v2/a/manifests/"+w.dArt1.String(), nil, nil, w.art1)
		for k := 0; k < 4; k++ {
			a := vhArtifact(k, vhDesc(types.MediaTypeOCI1Manifest, w.img1), k%2 == 0)
			do("put-art"+strconv.Itoa(k), "PUT", "/v2/a/manifests/"+a.dig.String(), nil, []string{"Content-Type", types.MediaTypeOCI1Manifest}, a.body)
		}
		r = do("referrers", "GET", "/v2/a/referrers/"+w.dImg1.String(), nil, nil, nil)
		for hop := 0; hop < 6; hop++ {
			p, q, ok := vhNextLink(r.HeaderMap.Get("Link"))
			if !ok {
				break
			}
			r = vhDo(s, "GET", p, q, nil, nil)
			vtNote("referrers-next", r)
		}
		do("referrers-filter", "GET", "/v2/a/referrers/"+w.dImg1.String(), []string{"artifactType", "application/vnd.test.at1"}, nil, nil)
		do("referrers-page", "GET", "/v2/a/referrers/"+w.dImg1.String(), []string{"page", "-3", "cache", "sha256:zz"}, nil, nil)
		do("referrers-none", "GET", "/v2/zz/referrers/"+w.dImg2.String(), nil, nil, nil)
		do("get-tag", "GET", "/v2/a/manifests/t1", nil, []string{"Accept", "text/plain, " + types.MediaTypeOCI1Manifest}, nil)
		do("get-noaccept", "GET", "/v2/a/manifests/t1", nil, nil, nil)
		do("get-idx-as-img", "GET", "/v2/a/manifests/ti", nil, []string{"Accept", types.MediaTypeOCI1Manifest}, nil)
		do("head-digest", "HEAD", "/v2/a/manifests/"+w.dImg2.String(), nil, []string{"Accept", types.MediaTypeOCI1Manifest}, nil)
		do("tags", "GET", "/v2/a/tags/list", nil, nil, nil)
		do("tags-n1", "GET", "/v2/a/tags/list", []string{"n", "1"}, nil, nil)
		do("tags-n0", "GET", "/v2/a/tags/list", []string{"n", "0", "last", "t1"}, nil, nil)
		do("tags-neg", "GET", "/v2/a/tags/list", []string{"n", "-2"}, nil, nil)
		do("tags-unknown", "GET", "/v2/zz/tags/list", nil, nil, nil)
		do("tags-reserved", "GET", "/v2/a/blobs/tags/list", nil, nil, nil)
		do("del-tag", "DELETE", "/v2/a/manifests/t1", nil, nil, nil)
		do("del-digest", "DELETE", "/v2/a/manifests/"+w.dImg2.String(), nil, nil, nil)
		do("del-404", "DELETE", "/v2/a/manifests/nosuch", nil, nil, nil)
		do("del-blob", "DELETE", "/v2/a/blobs/"+w.dLayer.String(), nil, nil, nil)
		do("method", "BREW", "/v2/a/manifests/t1", nil, nil, nil)
		do("traversal", "GET", "/v2/a/../../etc/passwd", nil, nil, nil)
		do("cancel-unknown", "DELETE", "/v2/a/blobs/uploads/nosuch", nil, nil, nil)
		_ = s.Close()
		if st == config.StoreDir {
			vh.Note("tree " + strings.Join(vos.List(vhRoot), " "))
			vh.Note("index " + strings.ReplaceAll(string(vos.Bytes(vhRoot+"/a/index.json")), "\n", "\\n"))
		}
	}
	vh.Cover("VT.server-end")
}
