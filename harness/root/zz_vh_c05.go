package olareg

// C05 (request level): a collection at any point of a push, through the real ticker
// goroutine, with a symbolic grace period and symbolic time between the steps.

import (
	"time"

	digest "github.com/opencontainers/go-digest"

	"github.com/olareg/olareg/internal/verifenv/vclock"
	"github.com/olareg/olareg/internal/verifenv/vh"
	"github.com/olareg/olareg/types"
)

// vhTick delivers one tick to the store's collection goroutine and lets it finish.
func vhTick() {
	// the collection goroutine creates its ticker when it first runs: let it start
	vh.Sched()
	for _, t := range vclock.Tickers() {
		t.Tick()
	}
	vh.Sched()
}

// VH_C05_DuringPush: collections interleaved with the steps of a push.
func VH_C05_DuringPush() {
	vhReset()
	conf := vhConf(vhStore("dir"))
	conf.Storage.GC.Frequency = time.Second // the ticker goroutine runs (driven by vhTick)
	grace := time.Duration(-1)
	if !vh.Bool("graceDisabled") {
		grace = time.Duration(vh.Int64("grace"))
		vh.Assume(grace > 0 && grace < 1<<45)
	}
	conf.Storage.GC.GracePeriod = grace
	conf.Storage.GC.Untagged = vhBoolPtr(vh.Bool("gcUntagged"))
	s := New(conf)
	confB, layerB := []byte("{}"), []byte("xy")
	img := vhImage(vhDesc(types.MediaTypeOCI1ImageConfig, confB), []types.Descriptor{vhDesc(types.MediaTypeOCI1Layer, layerB)}, nil, "", nil)
	dImg := digest.Canonical.FromBytes(img)
	type upl struct {
		d  digest.Digest
		at int64
	}
	var ups []upl
	points := vh.Param("POINTS", 5)
	gcPoint := func(name string, rank int) {
		if rank >= points {
			return
		}
		// arbitrary time passes, then possibly a collection
		dt := vh.Int64("wait_" + name)
		vh.Assume(dt >= 0 && dt < 1<<46)
		vclock.Advance(time.Duration(dt))
		if vh.Bool("gc_" + name) {
			vhTick()
			now := vclock.LastNs()
			// nothing uploaded within the grace period is gone
			for _, u := range ups {
				if grace >= 0 && now-u.at < int64(grace) {
					vh.Assert(vhGetBlob(s, "a", u.d).Status() == 200, "C05.recent-upload-collected")
					vh.Cover("C05.recent-kept")
				}
			}
			vh.Cover("C05.collected-during-push")
		}
	}
	// the same config and layer may already be stored, unreferenced, from a push abandoned
	// longer ago than any grace period (no collection has run since)
	stale := vh.Bool("staleCopies")
	if stale {
		vhPushBlob(s, "a", confB)
		vhPushBlob(s, "a", layerB)
		vclock.Advance(time.Duration(1 << 47))
		vh.Tag("staleCopies", "true")
	}
	// upload protocol of the two blobs: monolithic POST, or session POST + PUT (quick
	// tier: the session protocol only together with stale copies)
	push := vhPushBlob
	if (stale || vh.Param("SESSIONALWAYS", 0) == 1) && vh.Bool("sessionUpload") {
		push = func(s *Server, repo string, content []byte) (digest.Digest, int) {
			d := digest.Canonical.FromBytes(content)
			id := vhSessionID(vhDo(s, "POST", "/v2/"+repo+"/blobs/uploads/", nil, nil, nil))
			rec := vhDo(s, "PUT", "/v2/"+repo+"/blobs/uploads/"+id, vhQ("state", vhStateToken(0), "digest", d.String()), nil, content)
			return d, rec.Status()
		}
		vh.Tag("upload", "session")
	}
	// upload instants are read BEFORE the request: the blob's real modification time is
	// later, so "uploaded less than a grace period ago" is judged conservatively
	t0 := vclock.LastNs()
	d1, c1 := push(s, "a", confB)
	ups = append(ups, upl{d1, t0})
	gcPoint("afterConfig", 3)
	t0 = vclock.LastNs()
	d2, c2 := push(s, "a", layerB)
	ups = append(ups, upl{d2, t0})
	gcPoint("afterLayer", 0)
	vh.Assert(c1 == 201 && c2 == 201, "C05.setup")
	t0 = vclock.LastNs()
	r := vhPutManifest(s, "a", "t1", types.MediaTypeOCI1Manifest, img)
	pushed := r.Status() == 201
	if pushed {
		ups = append(ups, upl{dImg, t0})
	}
	gcPoint("afterManifest", 1)
	tagged2 := false
	if pushed {
		tagged2 = vhPutManifest(s, "a", "t2", types.MediaTypeOCI1Manifest, img).Status() == 201
	}
	gcPoint("afterSecondTag", 4)
	if pushed {
		vhDo(s, "DELETE", "/v2/a/manifests/t1", nil, nil, nil)
	}
	gcPoint("afterTagDelete", 2)
	// every tag that resolves is completely pullable
	for _, t := range []string{"t1", "t2"} {
		g := vhGetManifest(s, "a", t)
		if g.Status() == 200 {
			vh.Assert(vhBytesEq(g.Body, img), "C05.tag-resolves-to-pushed")
			vh.Assert(vhGetBlob(s, "a", d1).Status() == 200 && vhGetBlob(s, "a", d2).Status() == 200, "C05.tagged-image-not-pullable")
			vh.Cover("C05.pullable")
		}
	}
	if tagged2 {
		// t2 was acknowledged and never deleted: it must still resolve
		vh.Assert(vhGetManifest(s, "a", "t2").Status() == 200, "C05.tagged-manifest-removed")
	}
	vh.Cover("C05.duringpush-end")
	_ = s.Close()
}
