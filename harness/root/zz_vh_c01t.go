package olareg

// C01 (interleavings of sessions): two requests race on ONE upload session, or two
// sessions complete the same or different content at the same time.  Context switches at
// lock acquisitions, bounded.  Whatever the schedule, every blob the registry serves
// afterwards hashes to the digest it is served under, and an acknowledged completion is
// readable.

import (
	digest "github.com/opencontainers/go-digest"

	"github.com/olareg/olareg/config"
	"github.com/olareg/olareg/internal/verifenv/vh"
)

// VH_C01_ConcurrentSession: races on upload sessions.
func VH_C01_ConcurrentSession() {
	vhReset()
	st := vhStore("dir")
	cf := vhConf(st)
	if st == config.StoreMem && vh.Bool("memOverDir") {
		cf.Storage.RootDir = vhRoot
		vh.Tag("store", "mem-over-dir")
	}
	s := New(cf)
	x, y := []byte("x"), []byte("y")
	universe := [][]byte{x, y, []byte("xy"), []byte("yx"), []byte("xx"), {}}
	open := func() string {
		r := vhDo(s, "POST", "/v2/a/blobs/uploads/", nil, nil, nil)
		vh.Assert(r.Status() == 202, "C01.setup")
		return vhSessionID(r)
	}
	id := open()
	vh.Assert(vhDo(s, "PATCH", "/v2/a/blobs/uploads/"+id, vhQ("state", vhStateToken(0)), nil, x).Status() == 202, "C01.setup")
	scenario := vh.Choice("scenario", 5)
	names := []string{"complete-vs-late-chunk", "complete-vs-complete", "complete-vs-cancel", "two-sessions-same-content", "two-monolithic-pushes-same-content"}
	vh.Tag("scenario", names[scenario])
	switches := vh.Param("SWITCHES", 2)
	dx, dxy := digest.Canonical.FromBytes(x), digest.Canonical.FromBytes([]byte("xy"))
	c1, c2 := 0, 0
	vh.Sched()
	switch scenario {
	case 0:
		// the session holds "x": one client completes it as digest(x), another one sends
		// the next chunk "y" at the offset it saw
		vh.Preempt(switches)
		vh.Go(func() {
			c2 = vhDo(s, "PATCH", "/v2/a/blobs/uploads/"+id, vhQ("state", vhStateToken(1)), nil, y).Status()
		})
		vh.Go(func() {
			c1 = vhDo(s, "PUT", "/v2/a/blobs/uploads/"+id, vhQ("state", vhStateToken(1), "digest", dx.String()), nil, nil).Status()
		})
	case 1:
		// two clients complete the same session, one with a final chunk "y" as
		// digest(xy), one without further data as digest(x)
		vh.Preempt(switches)
		vh.Go(func() {
			c2 = vhDo(s, "PUT", "/v2/a/blobs/uploads/"+id, vhQ("state", vhStateToken(1), "digest", dxy.String()), nil, y).Status()
		})
		vh.Go(func() {
			c1 = vhDo(s, "PUT", "/v2/a/blobs/uploads/"+id, vhQ("state", vhStateToken(1), "digest", dx.String()), nil, nil).Status()
		})
	case 2:
		vh.Preempt(switches)
		vh.Go(func() { c2 = vhDo(s, "DELETE", "/v2/a/blobs/uploads/"+id, nil, nil, nil).Status() })
		vh.Go(func() {
			c1 = vhDo(s, "PUT", "/v2/a/blobs/uploads/"+id, vhQ("state", vhStateToken(1), "digest", dx.String()), nil, nil).Status()
		})
	case 3:
		// a second session with the same content completes at the same time
		id2 := open()
		vh.Assert(vhDo(s, "PATCH", "/v2/a/blobs/uploads/"+id2, vhQ("state", vhStateToken(0)), nil, x).Status() == 202, "C01.setup")
		vh.Preempt(switches)
		vh.Go(func() {
			c2 = vhDo(s, "PUT", "/v2/a/blobs/uploads/"+id2, vhQ("state", vhStateToken(1), "digest", dx.String()), nil, nil).Status()
		})
		vh.Go(func() {
			c1 = vhDo(s, "PUT", "/v2/a/blobs/uploads/"+id, vhQ("state", vhStateToken(1), "digest", dx.String()), nil, nil).Status()
		})
	case 4:
		// two clients push the same content in one request each (POST ?digest=): both
		// sessions are created for that digest before either completes
		vh.Preempt(switches)
		vh.Go(func() { _, c2 = vhPushBlob(s, "a", x) })
		vh.Go(func() { _, c1 = vhPushBlob(s, "a", x) })
	}
	vh.Join()
	vh.Preempt(0)
	vh.Sched()
	// everything served hashes to the digest it is served under (checked first: the
	// engine ends a path at its first violation, and the recorded finding below must not
	// hide this clause)
	for _, content := range universe {
		for _, alg := range []digest.Algorithm{digest.SHA256, digest.SHA512} {
			d := alg.FromBytes(content)
			g := vhGetBlob(s, "a", d)
			vh.Assert(g.Status() == 200 || g.Status() == 404, "C01.blob-read-status")
			if g.Status() == 200 {
				vh.Assert(d.Algorithm().FromBytes(g.Body) == d, "C01.served-bytes-do-not-hash-to-digest")
				vh.Cover("C01.race-blob-served")
			}
		}
	}
	// whatever was acknowledged is readable (for two requests racing on ONE session this
	// fails on the unchanged tree: known finding K4, see DESIGN 9.4)
	if vh.Param("LIVENESS", 0) == 1 {
		// registered under C12: only "every request came back and later requests are
		// answered" (the reads above) is the subject there
		vh.Cover("C01.race-end")
		return
	}
	if c1 == 201 {
		g := vhGetBlob(s, "a", dx)
		vh.Assert(g.Status() == 200 && vhBytesEq(g.Body, x), "C01.acknowledged-readable")
		vh.Cover("C01.race-acknowledged")
	}
	if scenario == 1 && c2 == 201 {
		g := vhGetBlob(s, "a", dxy)
		vh.Assert(g.Status() == 200 && vhBytesEq(g.Body, []byte("xy")), "C01.acknowledged-readable")
	}
	if scenario == 3 || scenario == 4 {
		vh.Assert(c1 == 201 && c2 == 201, "C01.independent-session-refused")
	}
	vh.Cover("C01.race-end")
}
