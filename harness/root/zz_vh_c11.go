package olareg

// C11: concurrent requests on a repository never lose or tear updates.
// Two handler invocations run as engine threads; context switches at every
// synchronisation operation (bounded), the schedule is forked by the engine.

import (
	"context"
	"time"

	digest "github.com/opencontainers/go-digest"

	"github.com/olareg/olareg/config"
	"github.com/olareg/olareg/internal/store"
	"github.com/olareg/olareg/internal/verifenv/vclock"
	"github.com/olareg/olareg/internal/verifenv/vh"
	"github.com/olareg/olareg/types"
)

// vhGateStore counts the repositories handed out (a request that holds one is registered
// with it from then on).
type vhGateStore struct {
	store.Store
	opened int
}

func (g *vhGateStore) RepoGet(ctx context.Context, name string) (store.Repo, error) {
	r, err := g.Store.RepoGet(ctx, name)
	if err == nil {
		g.opened++
	}
	return r, err
}

func vhListed(s *Server, subject digest.Digest, d digest.Digest) bool {
	r := vhDo(s, "GET", "/v2/a/referrers/"+subject.String(), nil, nil, nil)
	idx, ok := vhDecodeIndex(r.Body)
	if r.Status() != 200 || !ok {
		return false
	}
	for _, m := range idx.Manifests {
		if m.Digest == d {
			return true
		}
	}
	return false
}

// VH_C11_Concurrent: pairs of concurrent requests on one repository.
func VH_C11_Concurrent() {
	vhReset()
	st := config.StoreMem
	switch vh.Param("STORE", 0) {
	case 0:
		st = vhStore("dir")
	case 2:
		st = config.StoreDir
	}
	cf := vhConf(st)
	if st == config.StoreMem && vh.Bool("memOverDir") {
		// the memory store layered over a (here empty) root directory
		cf.Storage.RootDir = vhRoot
		vh.Tag("store", "mem-over-dir")
	}
	s := New(cf)
	img1, img2 := vhTwoImages(s, "a")
	d1, d2 := digest.Canonical.FromBytes(img1), digest.Canonical.FromBytes(img2)
	vh.Assert(vhPutManifest(s, "a", "base", types.MediaTypeOCI1Manifest, img1).Status() == 201, "C11.setup")
	subj := vhDesc(types.MediaTypeOCI1Manifest, img1)
	a1, a2 := vhArtifact(1, subj, true), vhArtifact(2, subj, true)
	scenario := vh.Param("SCENARIO", -1)
	if scenario < 0 {
		scenario = vh.Choice("scenario", 10)
	}
	names := []string{"two-referrers-same-subject", "two-pushes-same-tag", "push-vs-delete-tag", "push-referrer-vs-delete-referrer", "push-vs-reads", "upload-vs-manifest-push", "two-first-pushes-to-a-new-repository", "upload-vs-probe-of-the-same-digest", "two-pushes-while-the-open-repository-expires", "two-pushes-and-the-repository-expires-at-any-moment"}
	vh.Tag("scenario", names[scenario])
	switches := vh.Param("SWITCHES", 2)
	c1, c2 := 0, 0
	switch scenario {
	case 0:
		vh.Preempt(switches)
		vh.Go(func() { c1 = vhPutManifest(s, "a", a1.dig.String(), types.MediaTypeOCI1Manifest, a1.body).Status() })
		vh.Go(func() { c2 = vhPutManifest(s, "a", a2.dig.String(), types.MediaTypeOCI1Manifest, a2.body).Status() })
		vh.Join()
		vh.Preempt(0)
		vh.Assert(c1 == 201 && c2 == 201, "C11.concurrent-push-refused")
		// both acknowledged, none deleted: both are listed at quiescence
		vh.Assert(vhListed(s, subj.Digest, a1.dig) && vhListed(s, subj.Digest, a2.dig), "C11.acknowledged-referrer-lost")
	case 1:
		vh.Preempt(switches)
		vh.Go(func() { c1 = vhPutManifest(s, "a", "t", types.MediaTypeOCI1Manifest, img1).Status() })
		vh.Go(func() { c2 = vhPutManifest(s, "a", "t", types.MediaTypeOCI1Manifest, img2).Status() })
		vh.Join()
		vh.Preempt(0)
		vh.Assert(c1 == 201 && c2 == 201, "C11.concurrent-push-refused")
		g := vhGetManifest(s, "a", "t")
		vh.Assert(g.Status() == 200 && (vhBytesEq(g.Body, img1) || vhBytesEq(g.Body, img2)), "C11.tag-resolves-to-neither-push")
		// both manifests stay addressable by digest, the tag is listed once
		vh.Assert(vhGetManifest(s, "a", d1.String()).Status() == 200 && vhGetManifest(s, "a", d2.String()).Status() == 200, "C11.pushed-manifest-lost")
		tl, _ := vhDecodeTags(vhDo(s, "GET", "/v2/a/tags/list", nil, nil, nil).Body)
		n := 0
		for _, t := range tl {
			if t == "t" {
				n++
			}
		}
		vh.Assert(n == 1, "C11.tag-listed-not-once")
	case 2:
		vh.Assert(vhPutManifest(s, "a", "t", types.MediaTypeOCI1Manifest, img1).Status() == 201, "C11.setup")
		vh.Preempt(switches)
		vh.Go(func() { c1 = vhPutManifest(s, "a", "t", types.MediaTypeOCI1Manifest, img2).Status() })
		vh.Go(func() { c2 = vhDo(s, "DELETE", "/v2/a/manifests/t", nil, nil, nil).Status() })
		vh.Join()
		vh.Preempt(0)
		g := vhGetManifest(s, "a", "t")
		// serial orders: delete;push -> img2 ; push;delete -> absent
		vh.Assert(c1 == 201 && c2 == 202, "C11.concurrent-request-refused")
		vh.Assert((g.Status() == 200 && vhBytesEq(g.Body, img2)) || g.Status() == 404, "C11.tag-state-not-serializable")
		vh.Assert(vhGetManifest(s, "a", d2.String()).Status() == 200, "C11.pushed-manifest-lost")
	case 3:
		vh.Assert(vhPutManifest(s, "a", a2.dig.String(), types.MediaTypeOCI1Manifest, a2.body).Status() == 201, "C11.setup")
		vh.Preempt(switches)
		vh.Go(func() { c1 = vhPutManifest(s, "a", a1.dig.String(), types.MediaTypeOCI1Manifest, a1.body).Status() })
		vh.Go(func() { c2 = vhDo(s, "DELETE", "/v2/a/manifests/"+a2.dig.String(), nil, nil, nil).Status() })
		vh.Join()
		vh.Preempt(0)
		vh.Assert(c1 == 201 && c2 == 202, "C11.concurrent-request-refused")
		vh.Assert(vhListed(s, subj.Digest, a1.dig), "C11.acknowledged-referrer-lost")
		vh.Assert(!vhListed(s, subj.Digest, a2.dig), "C11.deleted-referrer-listed")
	case 4:
		// reads during a push see the state before or after it
		code, body := 0, []byte(nil)
		tags := []string(nil)
		vh.Preempt(switches)
		vh.Go(func() { c1 = vhPutManifest(s, "a", "t", types.MediaTypeOCI1Manifest, img2).Status() })
		vh.Go(func() {
			g := vhGetManifest(s, "a", "t")
			code, body = g.Status(), g.Body
			tags, _ = vhDecodeTags(vhDo(s, "GET", "/v2/a/tags/list", nil, nil, nil).Body)
		})
		vh.Join()
		vh.Preempt(0)
		vh.Assert(c1 == 201, "C11.concurrent-push-refused")
		vh.Assert(code == 404 || (code == 200 && vhBytesEq(body, img2)), "C11.read-saw-impossible-state")
		for _, t := range tags {
			vh.Assert(t == "base" || t == "t", "C11.read-saw-impossible-state")
		}
	case 5:
		// a blob upload and a manifest push in the same repository
		vh.Preempt(switches)
		vh.Go(func() { _, c1 = vhPushBlob(s, "a", []byte("another")) })
		vh.Go(func() { c2 = vhPutManifest(s, "a", "t", types.MediaTypeOCI1Manifest, img2).Status() })
		vh.Join()
		vh.Preempt(0)
		vh.Assert(c1 == 201 && c2 == 201, "C11.concurrent-request-refused")
		vh.Assert(vhGetBlob(s, "a", digest.Canonical.FromBytes([]byte("another"))).Status() == 200, "C11.acknowledged-blob-lost")
		vh.Assert(vhBytesEq(vhGetManifest(s, "a", "t").Body, img2), "C11.acknowledged-tag-lost")
	case 6:
		// the first two requests a repository ever sees arrive together
		p, q := []byte("first-p"), []byte("first-q")
		vh.Preempt(switches)
		vh.Go(func() { _, c1 = vhPushBlob(s, "n", p) })
		vh.Go(func() { _, c2 = vhPushBlob(s, "n", q) })
		vh.Join()
		vh.Preempt(0)
		vh.Assert(c1 == 201 && c2 == 201, "C11.concurrent-request-refused")
		vh.Assert(vhGetBlob(s, "n", digest.Canonical.FromBytes(p)).Status() == 200 && vhGetBlob(s, "n", digest.Canonical.FromBytes(q)).Status() == 200, "C11.acknowledged-blob-lost")
	case 7:
		// a client uploads a blob while another one asks whether it exists
		x := []byte("probed-content")
		dx := digest.Canonical.FromBytes(x)
		vh.Preempt(switches)
		vh.Go(func() { _, c1 = vhPushBlob(s, "a", x) })
		vh.Go(func() { c2 = vhDo(s, "HEAD", "/v2/a/blobs/"+dx.String(), nil, nil, nil).Status() })
		vh.Join()
		vh.Preempt(0)
		vh.Assert(c1 == 201 && (c2 == 200 || c2 == 404), "C11.concurrent-request-refused")
		vh.Assert(vhGetBlob(s, "a", dx).Status() == 200, "C11.acknowledged-blob-lost")
	case 8, 9:
		// two pushes of different tags while the cache of open repositories lets the
		// repository expire (its age timer fires hours later).  Scenario 8: the hours pass
		// while the first push holds the repository (it is registered with it: the
		// eviction has to wait for it).  Scenario 9: at any moment - including the window
		// of dir.RepoGet between the cache lookup and the registration (known finding K5).
		// (Both pushes add a tag to the image that is already tagged: nothing they store
		// is unreferenced, so the hours that pass cannot make any of it collectable.)
		gate := &vhGateStore{Store: s.store}
		s.store = gate
		vh.Preempt(switches)
		vh.Go(func() { c1 = vhPutManifest(s, "a", "ta", types.MediaTypeOCI1Manifest, img1).Status() })
		vh.Go(func() {
			if scenario == 8 && gate.opened == 0 {
				return
			}
			vclock.Advance(3 * time.Hour)
			for _, t := range vclock.Armed() {
				if f := t.Func(); f != nil {
					f()
				}
			}
			vh.Cover("C11.repository-expired-during-push")
		})
		vh.Go(func() { c2 = vhPutManifest(s, "a", "tb", types.MediaTypeOCI1Manifest, img1).Status() })
		vh.Join()
		vh.Preempt(0)
		vh.Assert(c1 == 201 && c2 == 201, "C11.concurrent-push-refused")
		vh.Assert(vhBytesEq(vhGetManifest(s, "a", "ta").Body, img1) && vhBytesEq(vhGetManifest(s, "a", "tb").Body, img1), "C11.acknowledged-tag-lost")
	}
	vh.Assert(vhBytesEq(vhGetManifest(s, "a", "base").Body, img1), "C11.unrelated-tag-lost")
	vh.Cover("C11.concurrent-end")
}
