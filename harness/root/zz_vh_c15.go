package olareg

// C15: any request gets a well-formed answer: no panic, no 5xx for client errors,
// registered error codes, only grammar-conforming repository names reach the store.

import (
	"encoding/json"
	"net/http"
	"net/url"

	"github.com/olareg/olareg/config"
	"github.com/olareg/olareg/internal/verifenv/vh"
	"github.com/olareg/olareg/internal/verifenv/vhttp"
	"github.com/olareg/olareg/types"
)

var vhRegisteredCodes = map[string]bool{
	"BLOB_UNKNOWN": true, "BLOB_UPLOAD_INVALID": true, "BLOB_UPLOAD_UNKNOWN": true, "DIGEST_INVALID": true,
	"MANIFEST_BLOB_UNKNOWN": true, "MANIFEST_INVALID": true, "MANIFEST_UNKNOWN": true, "NAME_INVALID": true,
	"NAME_UNKNOWN": true, "SIZE_INVALID": true, "UNAUTHORIZED": true, "DENIED": true, "UNSUPPORTED": true,
	"TOOMANYREQUESTS": true,
}

// allowed codes per route and status (the condition table of the statement)
var vhCodeTable = map[string]map[int][]string{
	"blobs":        {404: {"BLOB_UNKNOWN"}, 400: {"DIGEST_INVALID", "NAME_INVALID"}, 403: {"DENIED"}},
	"manifests":    {404: {"MANIFEST_UNKNOWN", "MANIFEST_BLOB_UNKNOWN", "NAME_UNKNOWN"}, 400: {"DIGEST_INVALID", "MANIFEST_INVALID", "MANIFEST_BLOB_UNKNOWN", "NAME_INVALID"}, 403: {"DENIED"}, 413: {"MANIFEST_INVALID", "SIZE_INVALID"}},
	"uploads-post": {400: {"DIGEST_INVALID", "BLOB_UPLOAD_INVALID", "NAME_INVALID"}, 404: {"BLOB_UNKNOWN"}, 403: {"DENIED"}},
	"uploads-id":   {400: {"BLOB_UPLOAD_UNKNOWN", "BLOB_UPLOAD_INVALID", "DIGEST_INVALID", "NAME_INVALID"}, 404: {"BLOB_UPLOAD_UNKNOWN", "BLOB_UNKNOWN"}, 416: {"SIZE_INVALID"}, 403: {"DENIED"}},
	"tags":         {404: {"NAME_UNKNOWN"}, 400: {"NAME_INVALID"}},
	"referrers":    {400: {"UNSUPPORTED", "NAME_INVALID", "DIGEST_INVALID"}, 404: {"NAME_UNKNOWN"}},
}

func vhCheckErrorDoc(route string, code int, body []byte) {
	if code < 400 || len(body) == 0 {
		return
	}
	er := types.ErrorResp{}
	err := json.Unmarshal(body, &er)
	vh.Assert(err == nil && len(er.Errors) >= 1, "C15.error-document")
	for _, e := range er.Errors {
		vh.Tag("code", e.Code)
		vh.Assert(vhRegisteredCodes[e.Code], "C15.error-code-registered")
		if allowed, ok := vhCodeTable[route][code]; ok {
			found := false
			for _, a := range allowed {
				if a == e.Code {
					found = true
				}
			}
			vh.Assert(found, "C15.error-code-for-condition")
		}
	}
	vh.Tag("code", "")
	vh.Cover("C15.error-doc")
}

// VH_C15_Request: one arbitrary request in an arbitrary world.
func VH_C15_Request() {
	vhReset()
	st := vhStore("dir")
	level := vh.Choice("world", 3)
	w := vhNewWorld(vhConf(st), level)
	r := w.vhAnyRequest(vh.Param("REPOS", 5), vh.Param("METHODS", 8))
	vh.Tag("route", r.route)
	vh.Tag("method", r.method)
	rec := w.do(r)
	vh.Assert(!rec.Panicked, "C15.nopanic")
	code := rec.Status()
	vh.Assert(code >= 100 && code < 600, "C15.status-valid")
	vh.Assert(code < 500, "C15.no-5xx")
	vhCheckErrorDoc(r.route, code, rec.Body)
	for _, n := range w.rec.names {
		vh.Assert(rePath.MatchString(n), "C15.routed-name-in-grammar")
	}
	// specific conditions
	if r.route == "uploads-id" && r.ref == "nosuch" && (r.method == "PATCH" || r.method == "PUT" || r.method == "GET" || r.method == "DELETE") && rePath.MatchString(r.repo) && code >= 400 && code != 405 {
		er := types.ErrorResp{}
		_ = json.Unmarshal(rec.Body, &er)
		if len(er.Errors) > 0 && er.Errors[0].Code != "NAME_INVALID" {
			vh.Assert(er.Errors[0].Code == "BLOB_UPLOAD_UNKNOWN", "C15.unknown-session-code")
			vh.Cover("C15.unknown-session")
		}
	}
	if code < 300 {
		vh.Cover("C15.success")
	}
	vh.Cover("C15.request-end")
}

// VH_C15_MatchV2: the path matcher never panics and only yields grammar names.
func VH_C15_MatchV2() {
	// precondition established by ServeHTTP (path.Clean + Trim + Split): no empty
	// element, except the single element "" for the root path
	segs := []string{"v2", "a", "A", "blobs", "uploads", "manifests", "tags", "list", "referrers", "x.y", "-"}
	n := 1 + vh.Choice("len", vh.Param("LEN", 5))
	pathEl := make([]string, n)
	for i := range pathEl {
		pathEl[i] = segs[vh.Choice("seg", len(segs))]
	}
	if n == 1 && vh.Bool("root") {
		pathEl[0] = ""
	}
	patterns := [][]string{
		{},
		{"...", "manifests", "*"},
		{"...", "blobs", "*"},
		{"...", "referrers", "*"},
		{"...", "tags", "list"},
		{"...", "blobs", "uploads", "*"},
	}
	p := patterns[vh.Choice("pattern", len(patterns))]
	var matches []string
	var ok bool
	panicked := false
	func() {
		defer func() {
			if r := recover(); r != nil {
				if vhIsControl(r) {
					panic(r)
				}
				panicked = true
			}
		}()
		matches, ok = matchV2(pathEl, p...)
	}()
	vh.Assert(!panicked, "C15.matchv2-nopanic")
	if ok && len(p) > 0 {
		vh.Assert(len(matches) >= 1 && rePath.MatchString(matches[0]), "C15.matchv2-grammar")
		// fixed segments are where the pattern says
		vh.Assert(pathEl[0] == "v2", "C15.matchv2-prefix")
		k := len(pathEl) - (len(p) - 1)
		for j := 1; j < len(p); j++ {
			if p[j] != "*" {
				vh.Assert(pathEl[k+j-1] == p[j], "C15.matchv2-fixed")
			}
		}
		vh.Cover("C15.matchv2-match")
	}
	vh.Cover("C15.matchv2-end")
}

func vhIsControl(r any) bool {
	switch r.(type) {
	case vh.StopReplay, vh.AssumeFailed:
		return true
	}
	return false
}

// VH_C15_ErrCodes: every constructor yields the registered code its name denotes.
func VH_C15_ErrCodes() {
	type ctor struct {
		f    func(string) types.ErrorInfo
		code string
	}
	ctors := []ctor{
		{types.ErrInfoBlobUnknown, "BLOB_UNKNOWN"},
		{types.ErrInfoBlobUploadInvalid, "BLOB_UPLOAD_INVALID"},
		{types.ErrInfoBlobUploadUnknown, "BLOB_UPLOAD_UNKNOWN"},
		{types.ErrInfoDigestInvalid, "DIGEST_INVALID"},
		{types.ErrInfoManifestBlobUnknown, "MANIFEST_BLOB_UNKNOWN"},
		{types.ErrInfoManifestInvalid, "MANIFEST_INVALID"},
		{types.ErrInfoManifestUnknown, "MANIFEST_UNKNOWN"},
		{types.ErrInfoNameInvalid, "NAME_INVALID"},
		{types.ErrInfoNameUnknown, "NAME_UNKNOWN"},
		{types.ErrInfoSizeInvalid, "SIZE_INVALID"},
		{types.ErrInfoUnauthorized, "UNAUTHORIZED"},
		{types.ErrInfoDenied, "DENIED"},
		{types.ErrInfoUnsupported, "UNSUPPORTED"},
		{types.ErrInfoTooManyRequests, "TOOMANYREQUESTS"},
	}
	c := ctors[vh.Choice("ctor", len(ctors))]
	detail := vh.Str("detail", "", "d", "x y")
	e := c.f(detail)
	vh.Tag("ctor", c.code)
	vh.Assert(e.Code == c.code, "C15.ctor-code")
	vh.Assert(e.Detail == detail && e.Message != "" && e.Message != c.code, "C15.ctor-fields")
	vh.Cover("C15.ctor-end")
}

// VH_C15_OddNames: every route shape x every method x every repository name of the name
// universe (grammar names, nested names, names the directory store reserves, names outside
// the grammar) on both stores, with one fixed well-formed reference per route: no panic, no
// 5xx, a well-formed error document, and a reserved name is answered as a client error
// that names the repository (NAME_INVALID) wherever an error document is sent.
func VH_C15_OddNames() {
	vhReset()
	st := vhStore("dir")
	w := vhNewWorld(vhConf(st), 1)
	name := vhRepoNames[vh.Choice("repo", len(vhRepoNames))]
	method := vhMethods[vh.Choice("method", len(vhMethods))]
	routes := []string{"manifests", "manifests-digest", "blobs", "uploads-post", "uploads-id", "referrers", "tags", "mount"}
	route := routes[vh.Choice("route", len(routes))]
	vh.Tag("route", route)
	vh.Tag("method", method)
	vh.Tag("name", name)
	q := url.Values{}
	hdr := http.Header{}
	var body []byte
	path := "/v2/" + name
	tblRoute := route
	switch route {
	case "manifests":
		path += "/manifests/t1"
		body = w.img1
		hdr.Set("Content-Type", types.MediaTypeOCI1Manifest)
		for _, a := range vhAllAccept {
			hdr.Add("Accept", a)
		}
	case "manifests-digest":
		tblRoute = "manifests"
		path += "/manifests/" + w.dImg1.String()
		body = w.img1
		hdr.Set("Content-Type", types.MediaTypeOCI1Manifest)
		for _, a := range vhAllAccept {
			hdr.Add("Accept", a)
		}
	case "blobs":
		path += "/blobs/" + w.dLayer.String()
	case "uploads-post":
		path += "/blobs/uploads/"
		body = w.layer
		q.Set("digest", w.dLayer.String())
	case "uploads-id":
		path += "/blobs/uploads/nosuch"
		q.Set("state", vhStateToken(0))
	case "referrers":
		path += "/referrers/" + w.dImg1.String()
	case "tags":
		path += "/tags/list"
	case "mount":
		// the odd name as the SOURCE of a cross-repository mount into a
		tblRoute = "uploads-post"
		path = "/v2/a/blobs/uploads/"
		q.Set("mount", w.dOther.String())
		q.Set("from", name)
	}
	if method == "GET" || method == "HEAD" || method == "DELETE" || method == "OPTIONS" || method == "BREW" {
		body = nil
	}
	rec := vhttp.Serve(w.s, vhttp.Request(method, path, q, hdr, body, int64(len(body))))
	vh.Assert(!rec.Panicked, "C15.nopanic")
	code := rec.Status()
	vh.Assert(code >= 100 && code < 600, "C15.status-valid")
	vh.Assert(code < 500, "C15.no-5xx")
	vhCheckErrorDoc(tblRoute, code, rec.Body)
	for _, n := range w.rec.names {
		vh.Assert(rePath.MatchString(n), "C15.routed-name-in-grammar")
	}
	reserved := name == "index.json" || name == "a/blobs" || name == "x/oci-layout"
	// (GET/HEAD/DELETE on .../blobs/uploads/ address a blob with the malformed digest
	// "uploads": the digest is refused before the repository is opened)
	if reserved && st == config.StoreDir && route != "mount" && (route != "uploads-post" || method == "POST") && code >= 400 && code != 405 && len(rec.Body) > 0 {
		er := types.ErrorResp{}
		_ = json.Unmarshal(rec.Body, &er)
		vh.Assert(len(er.Errors) > 0 && er.Errors[0].Code == "NAME_INVALID", "C15.reserved-name-code")
		vh.Cover("C15.reserved-name-refused")
	}
	vh.Cover("C15.oddnames-end")
}
