package types

// C18 (and the tag clauses of C03): invariants of the repository index under any
// insert/remove sequence.  In-package so that childManifests is visible.

import (
	"sort"
	"strconv"
	"strings"

	digest "github.com/opencontainers/go-digest"

	"github.com/olareg/olareg/internal/verifenv/vh"
)

var (
	vhD = []digest.Digest{
		digest.Digest("sha256:" + strings.Repeat("0", 64)),
		digest.Digest("sha256:" + strings.Repeat("1", 64)),
		digest.Digest("sha256:" + strings.Repeat("2", 64)),
	}
	vhTags = []string{"t0", "t1"}
)

// annotation shapes: 0 nil, 1 empty non-nil, 2 {ref:t0}, 3 {ref:t1}, 4 {subject:D0},
// 5 {subject:D1}, 6 {ref:t0,subject:D0}.  Shape 6 (a descriptor carrying a tag AND a
// subject) is never produced by olareg and is outside the claimed universe (A<=6).
func vhAnnot(k int) map[string]string {
	switch k {
	case 1:
		return map[string]string{}
	case 2:
		return map[string]string{AnnotRefName: "t0"}
	case 3:
		return map[string]string{AnnotRefName: "t1"}
	case 4:
		return map[string]string{AnnotReferrerSubject: vhD[0].String()}
	case 5:
		return map[string]string{AnnotReferrerSubject: vhD[1].String()}
	case 6:
		return map[string]string{AnnotRefName: "t0", AnnotReferrerSubject: vhD[0].String()}
	}
	return nil
}

func vhEntry(d, a int) Descriptor {
	return Descriptor{MediaType: MediaTypeOCI1Manifest, Digest: vhD[d], Size: int64(10 + d), Annotations: vhAnnot(a)}
}

func vhTagOf(d Descriptor) string {
	if d.Annotations == nil {
		return ""
	}
	return d.Annotations[AnnotRefName]
}

func vhSubjOf(d Descriptor) string {
	if d.Annotations == nil {
		return ""
	}
	return d.Annotations[AnnotReferrerSubject]
}

// vhInv checks the representation invariant and returns the id of the broken clause.
func vhInv(i *Index) string {
	tags := map[string]int{}
	subj := map[string]int{}
	plain := map[digest.Digest]int{}
	for _, d := range i.Manifests {
		t, s := vhTagOf(d), vhSubjOf(d)
		if t != "" {
			tags[t]++
			if tags[t] > 1 {
				return "C18.tag-unique"
			}
		}
		if s != "" {
			subj[s]++
			if subj[s] > 1 {
				return "C18.subject-unique"
			}
		}
		if t == "" && s == "" {
			plain[d.Digest]++
			if plain[d.Digest] > 1 {
				return "C18.untagged-once"
			}
		}
	}
	return ""
}

// a plain entry may coexist with tagged entries of the same digest only transiently;
// the statement only forbids listing an untagged digest twice.

type vhView struct {
	tags  map[string]digest.Digest
	top   map[digest.Digest]bool
	child map[digest.Digest]bool
}

func vhViewOf(i *Index) vhView {
	v := vhView{tags: map[string]digest.Digest{}, top: map[digest.Digest]bool{}, child: map[digest.Digest]bool{}}
	for _, d := range i.Manifests {
		v.top[d.Digest] = true
		if t := vhTagOf(d); t != "" {
			v.tags[t] = d.Digest
		}
	}
	for _, d := range i.childManifests {
		v.child[d.Digest] = true
	}
	return v
}

func vhState(i *Index) string {
	var sb strings.Builder
	for _, d := range i.Manifests {
		sb.WriteString(string(d.Digest[7:8]))
		if d.Annotations == nil {
			sb.WriteString("n")
		} else {
			ks := make([]string, 0, 2)
			for k, v := range d.Annotations {
				ks = append(ks, k[len(k)-4:]+"="+v[len(v)-2:])
			}
			sort.Strings(ks)
			sb.WriteString("{" + strings.Join(ks, ",") + "}")
		}
		sb.WriteString(";")
	}
	sb.WriteString("|")
	for _, d := range i.childManifests {
		sb.WriteString(string(d.Digest[7:8]) + ";")
	}
	return sb.String()
}

// vhCheckLookups: GetDesc agrees with the contents.
func vhCheckLookups(i *Index) {
	v := vhViewOf(i)
	for k := range vhD {
		_, err := i.GetDesc(vhD[k].String())
		present := v.top[vhD[k]] || v.child[vhD[k]]
		vh.Assert((err == nil) == present, "C18.lookup-digest")
	}
	for _, t := range vhTags {
		got, err := i.GetDesc(t)
		want, ok := v.tags[t]
		vh.Assert((err == nil) == ok, "C18.lookup-tag")
		if ok && err == nil {
			vh.Assert(got.Digest == want, "C18.lookup-tag")
		}
	}
}

// vhStep applies one symbolic operation and checks the operation clauses.
func vhStep(i *Index, nDig, nAnn int) {
	pre := vhViewOf(i)
	// digest -> subject, for digests whose every top-level entry is a response for that one subject
	preOnlyResponseFor := map[digest.Digest]string{}
	for _, m := range i.Manifests {
		s := vhSubjOf(m)
		if old, ok := preOnlyResponseFor[m.Digest]; ok && old != s {
			preOnlyResponseFor[m.Digest] = "-"
		} else if !ok {
			if s == "" || vhTagOf(m) != "" {
				s = "-"
			}
			preOnlyResponseFor[m.Digest] = s
		}
	}
	for _, c := range i.childManifests {
		preOnlyResponseFor[c.Digest] = "-"
	}
	switch vh.Choice("op", 3) {
	case 0: // AddDesc
		d := vh.Choice("d", nDig)
		a := vh.Choice("a", nAnn)
		desc := vhEntry(d, a)
		var opts []IndexOpt
		if c := vh.Choice("children", nDig+1); c > 0 {
			opts = append(opts, IndexWithChildren([]Descriptor{vhEntry(c-1, 0)}))
		}
		vh.Note("AddDesc d=" + strconv.Itoa(d) + " annot=" + strconv.Itoa(a))
		i.AddDesc(desc, opts...)
		post := vhViewOf(i)
		vh.Assert(post.top[vhD[d]], "C18.add-present")
		if t := vhTagOf(desc); t != "" {
			got, err := i.GetDesc(t)
			vh.Assert(err == nil && got.Digest == vhD[d], "C18.add-lastwriter")
			vh.Cover("C18.add-tagged")
		}
		// other tags resolve as before
		for _, t := range vhTags {
			if t != vhTagOf(desc) {
				w, ok := pre.tags[t]
				g, ok2 := post.tags[t]
				vh.Assert(ok == ok2 && (!ok || w == g), "C18.add-othertags")
			}
		}
		// an insertion never makes a digest disappear from top level + children, except
		// that a new referrers response for subject s replaces the previous response
		// for s (documented: "alternate ... referrers response are removed")
		for k := range vhD {
			if pre.top[vhD[k]] || pre.child[vhD[k]] {
				replaced := vhSubjOf(desc) != "" && preOnlyResponseFor[vhD[k]] == vhSubjOf(desc)
				if !replaced {
					vh.Assert(post.top[vhD[k]] || post.child[vhD[k]], "C18.add-keeps")
				}
			}
		}
	case 1: // RmDesc
		d := vh.Choice("d", nDig+1) // nDig = empty digest
		a := vh.Choice("a", 4) // nil, t0, t1, subject D0
		var desc Descriptor
		if d < nDig {
			desc.Digest = vhD[d]
		}
		switch a {
		case 1:
			desc.Annotations = vhAnnot(2)
		case 2:
			desc.Annotations = vhAnnot(3)
		case 3:
			desc.Annotations = vhAnnot(4)
		}
		vh.Note("RmDesc d=" + strconv.Itoa(d) + " annot=" + strconv.Itoa(a))
		i.RmDesc(desc)
		post := vhViewOf(i)
		t := vhTagOf(desc)
		switch {
		case d < nDig && t != "":
			// removing a tag keeps the digest reachable, drops only that tag
			if pre.top[vhD[d]] {
				vh.Assert(post.top[vhD[d]], "C18.rmtag-keeps-digest")
			}
			if pre.tags[t] == vhD[d] {
				_, still := post.tags[t]
				vh.Assert(!still, "C18.rmtag-removes-tag")
				vh.Cover("C18.rmtag")
			}
			for _, o := range vhTags {
				if o != t {
					w, ok := pre.tags[o]
					g, ok2 := post.tags[o]
					vh.Assert(ok == ok2 && (!ok || w == g), "C18.rmtag-othertags")
				}
			}
		case d < nDig:
			// removing a digest removes every reference to it
			vh.Assert(!post.top[vhD[d]] && !post.child[vhD[d]], "C18.rmdigest-all")
			for _, o := range vhTags {
				w, ok := pre.tags[o]
				g, ok2 := post.tags[o]
				if ok && w != vhD[d] {
					vh.Assert(ok2 && g == w, "C18.rmdigest-othertags")
				}
				if ok && w == vhD[d] {
					vh.Assert(!ok2, "C18.rmdigest-tags")
					vh.Cover("C18.rmdigest-tagged")
				}
			}
			// other digests stay
			for k := range vhD {
				if k != d && pre.top[vhD[k]] {
					vh.Assert(post.top[vhD[k]], "C18.rmdigest-others")
				}
			}
		}
	case 2: // AddChildren
		d := vh.Choice("d", nDig)
		vh.Note("AddChildren d=" + strconv.Itoa(d))
		i.AddChildren([]Descriptor{vhEntry(d, 0)})
		vh.Assert(vhViewOf(i).child[vhD[d]], "C18.addchildren")
	}
	if id := vhInv(i); id != "" {
		vh.Note("state " + vhState(i))
		vh.Assert(false, id)
	}
	vhCheckLookups(i)
}

// VH_C18_History: bounded histories from the zero value.
func VH_C18_History() {
	var i Index
	k := vh.Param("K", 3)
	nDig := vh.Param("D", 2)
	nAnn := vh.Param("A", 6)
	for n := 0; n < k; n++ {
		vhStep(&i, nDig, nAnn)
	}
	vh.Cover("C18.history-end")
}

// VH_C18_Step: one operation from ANY state satisfying the invariant (inductive step).
func VH_C18_Step() {
	nDig := vh.Param("D", 2)
	nAnn := vh.Param("A", 5)
	maxTop := vh.Param("TOP", 2)
	maxChild := vh.Param("CHILD", 1)
	var i Index
	nTop := vh.Choice("ntop", maxTop+1)
	spare := vh.Choice("spare", 2)
	for n := 0; n < nTop; n++ {
		i.Manifests = append(i.Manifests, vhEntry(vh.Choice("pd", nDig), vh.Choice("pa", nAnn)))
	}
	if spare == 1 && len(i.Manifests) > 0 {
		// backing array with spare capacity 1
		m := make([]Descriptor, len(i.Manifests), len(i.Manifests)+1)
		copy(m, i.Manifests)
		i.Manifests = m
	}
	nChild := vh.Choice("nchild", maxChild+1)
	for n := 0; n < nChild; n++ {
		i.childManifests = append(i.childManifests, vhEntry(vh.Choice("cd", nDig), 0))
	}
	// assumed invariant (strengthened until every counterexample is reachable):
	// the statement's three clauses, and a digest is not both top-level and child.
	vh.Assume(vhInv(&i) == "")
	for _, c := range i.childManifests {
		for _, m := range i.Manifests {
			vh.Assume(c.Digest != m.Digest)
		}
	}
	pre := vhState(&i)
	vh.Note("pre-state " + pre)
	if !vh.Symbolic() {
		// native replay: the pre-state must be reachable from the zero Index by public
		// methods, otherwise the counterexample is an artefact of a weak invariant.
		if !vhReachable(pre, nDig) {
			vh.Note("pre-state not reachable within the search bound: " + pre)
			vh.Assume(false)
		}
	}
	vh.Cover("C18.step-pre")
	vhStep(&i, nDig, nAnn)
}

// vhReachable: breadth-first search over public-method sequences from the zero Index.
func vhReachable(target string, nDig int) bool {
	type st struct{ i Index }
	seen := map[string]bool{}
	frontier := []Index{{}}
	seen[vhState(&frontier[0])] = true
	if vhState(&frontier[0]) == target {
		return true
	}
	for depth := 0; depth < 8; depth++ {
		var next []Index
		for _, cur := range frontier {
			for op := 0; op < 3; op++ {
				for d := 0; d <= nDig; d++ {
					for a := 0; a < 7; a++ {
						for c := 0; c <= nDig; c++ {
							if op != 0 && c > 0 {
								continue
							}
							if op == 2 && (a > 0 || d == nDig) {
								continue
							}
							if op == 0 && d == nDig {
								continue
							}
							if op == 1 && a > 4 {
								continue
							}
							n := cur.Copy()
							switch op {
							case 0:
								var opts []IndexOpt
								if c > 0 {
									opts = append(opts, IndexWithChildren([]Descriptor{vhEntry(c-1, 0)}))
								}
								n.AddDesc(vhEntry(d, a), opts...)
							case 1:
								var desc Descriptor
								if d < nDig {
									desc.Digest = vhD[d]
								}
								desc.Annotations = vhAnnot(a)
								n.RmDesc(desc)
							case 2:
								n.AddChildren([]Descriptor{vhEntry(d, 0)})
							}
							s := vhState(&n)
							if s == target {
								return true
							}
							if !seen[s] && len(n.Manifests) <= 4 && len(n.childManifests) <= 3 {
								seen[s] = true
								next = append(next, n)
							}
						}
					}
				}
			}
		}
		frontier = next
	}
	return false
}

// VH_C18_Copy: copies are independent of the original.
func VH_C18_Copy() {
	var i Index
	i.Manifests = []Descriptor{vhEntry(0, 2), vhEntry(1, vh.Choice("a", 5))}
	i.Manifests[0].URLs = []string{"u"}
	i.Manifests[0].Data = []byte{1}
	i.Manifests[0].Platform = &Platform{OS: "linux", OSFeatures: []string{"f"}, Features: []string{"g"}}
	i.childManifests = []Descriptor{vhEntry(2, 0)}
	if vh.Bool("subject") {
		s := vhEntry(1, 4)
		i.Subject = &s
	}
	if vh.Bool("annot") {
		i.Annotations = map[string]string{"k": "v"}
	}
	before := vhState(&i)
	c := i.Copy()
	vh.Assert(vhState(&c) == before, "C18.copy-equal")
	// mutate every reachable part of the copy
	c.Manifests[0].Annotations[AnnotRefName] = "zz"
	c.Manifests[0].URLs[0] = "x"
	c.Manifests[0].Data[0] = 9
	c.Manifests[0].Platform.OS = "x"
	c.Manifests[0].Platform.OSFeatures[0] = "x"
	c.Manifests[0].Platform.Features[0] = "x"
	c.Manifests[1].Digest = vhD[2]
	c.childManifests[0].Digest = vhD[0]
	if c.Subject != nil {
		c.Subject.Digest = vhD[2]
		c.Subject.Annotations[AnnotReferrerSubject] = "x"
	}
	if c.Annotations != nil {
		c.Annotations["k"] = "x"
	}
	c.AddDesc(vhEntry(2, 3))
	c.RmDesc(Descriptor{Digest: vhD[0]})
	vh.Assert(vhState(&i) == before, "C18.copy-independent")
	vh.Assert(i.Manifests[0].URLs[0] == "u" && i.Manifests[0].Data[0] == 1 && i.Manifests[0].Platform.OS == "linux" &&
		i.Manifests[0].Platform.OSFeatures[0] == "f" && i.Manifests[0].Platform.Features[0] == "g", "C18.copy-independent")
	if i.Subject != nil {
		vh.Assert(i.Subject.Digest == vhD[1] && i.Subject.Annotations[AnnotReferrerSubject] == vhD[0].String(), "C18.copy-independent")
	}
	if i.Annotations != nil {
		vh.Assert(i.Annotations["k"] == "v", "C18.copy-independent")
	}
	// independence does not depend on lengths and capacities: backing arrays with spare
	// room (also an emptied list: length 0, capacity > 0) are not shared either, so
	// later appends on the two sides never meet
	var j Index
	switch vh.Choice("topShape", 3) {
	case 0:
		j.Manifests = []Descriptor{vhEntry(0, 1)}
	case 1:
		j.Manifests = append(make([]Descriptor, 0, 4), vhEntry(0, 1))
	case 2:
		j.Manifests = make([]Descriptor, 0, 2)
	}
	switch vh.Choice("childShape", 4) {
	case 1:
		j.childManifests = make([]Descriptor, 0, 2)
	case 2:
		j.childManifests = []Descriptor{vhEntry(0, 0)}
	case 3:
		j.childManifests = append(make([]Descriptor, 0, 3), vhEntry(0, 0))
	}
	k := j.Copy()
	hasChild := func(x *Index, d int) bool {
		for _, c := range x.childManifests {
			if c.Digest == vhD[d] {
				return true
			}
		}
		return false
	}
	k.AddChildren([]Descriptor{vhEntry(1, 0)})
	j.AddChildren([]Descriptor{vhEntry(2, 0)})
	vh.Assert(hasChild(&j, 2) && !hasChild(&j, 1) && hasChild(&k, 1) && !hasChild(&k, 2), "C18.copy-independent-after-append")
	_, e1 := j.GetDesc(vhD[1].String())
	_, e2 := j.GetDesc(vhD[2].String())
	vh.Assert(e1 != nil && e2 == nil, "C18.copy-independent-after-append")
	_, e1 = k.GetDesc(vhD[1].String())
	_, e2 = k.GetDesc(vhD[2].String())
	vh.Assert(e1 == nil && e2 != nil, "C18.copy-independent-after-append")
	// top-level appends: a new tag on each side
	k.AddDesc(vhEntry(0, 2))
	j.AddDesc(vhEntry(0, 3))
	_, e1 = j.GetDesc("t0")
	_, e2 = j.GetDesc("t1")
	vh.Assert(e1 != nil && e2 == nil, "C18.copy-independent-after-append")
	_, e1 = k.GetDesc("t0")
	_, e2 = k.GetDesc("t1")
	vh.Assert(e1 == nil && e2 != nil, "C18.copy-independent-after-append")
	vh.Cover("C18.copy-end")
}
