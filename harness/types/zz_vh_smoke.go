package types

import (
	"github.com/olareg/olareg/internal/verifenv/vh"
	digest "github.com/opencontainers/go-digest"
)

// VH_SMOKE_Index: tiny smoke harness for the engine.
func VH_SMOKE_Index() {
	d0 := digest.FromString("a")
	d1 := digest.FromString("b")
	ds := []digest.Digest{d0, d1}
	tags := []string{"", "t0", "t1"}
	var i Index
	n := vh.Param("K", 2)
	for k := 0; k < n; k++ {
		d := ds[vh.Choice("d", 2)]
		tag := tags[vh.Choice("tag", 3)]
		desc := Descriptor{MediaType: MediaTypeOCI1Manifest, Digest: d, Size: 1}
		if tag != "" {
			desc.Annotations = map[string]string{AnnotRefName: tag}
		}
		i.AddDesc(desc)
		if tag != "" {
			got, err := i.GetDesc(tag)
			vh.Assert(err == nil && got.Digest == d, "smoke.lastwriter")
			vh.Cover("smoke.tagged")
		}
	}
	x := vh.Int("x")
	vh.Assume(x > 5)
	vh.Assert(x+1 > 6, "smoke.overflow")
}
