package types

// VT: translator validation.  A deterministic, input-free workload over the real code;
// every intermediate result is written with vh.Note.  The check runs it once in the
// engine and once natively (go test) and compares the two note sequences line by line:
// any difference means the interpreter does not implement Go's semantics for something
// this code uses (slice aliasing after append and swap-delete, map deletes, string and
// regexp call-outs, JSON mirror types).

import (
	"encoding/json"
	"strconv"

	"github.com/olareg/olareg/internal/verifenv/vh"
)

func vtDump(i *Index) string {
	b, _ := json.Marshal(i)
	s := string(b) + " children:"
	for _, c := range i.childManifests {
		s += string(c.Digest[7:9]) + ","
	}
	return s + " cap=" + strconv.Itoa(cap(i.Manifests)) + "/" + strconv.Itoa(cap(i.childManifests))
}

// VT_Index: a pseudo-random but deterministic sequence of 400 index operations.
func VT_Index() {
	var i Index
	seed := uint32(12345)
	next := func(n int) int {
		seed = seed*1664525 + 1013904223
		return int(seed>>16) % n
	}
	var alias []Descriptor
	for k := 0; k < 400; k++ {
		op := next(6)
		d := vhEntry(next(3), next(6))
		switch op {
		case 0, 1:
			if next(3) == 0 {
				i.AddDesc(d, IndexWithChildren([]Descriptor{vhEntry(next(3), 0)}))
			} else {
				i.AddDesc(d)
			}
		case 2:
			if next(2) == 0 {
				d.Digest = ""
			}
			i.RmDesc(d)
		case 3:
			i.AddChildren([]Descriptor{vhEntry(next(3), 0)})
		case 4:
			// a shallow copy shares the backing array: aliasing after append must match
			alias = i.Manifests
			c := i
			c.AddDesc(vhEntry(next(3), 2+next(2)))
			if len(alias) > 0 {
				vh.Note("alias0 " + string(alias[0].Digest[7:9]) + " " + vhTagOf(alias[0]))
			}
		case 5:
			g, err := i.GetDesc([]string{"t0", "t1", vhD[next(3)].String(), "bad digest", "sha256:zz"}[next(5)])
			vh.Note("get " + string(g.Digest) + " " + strconv.FormatBool(err == nil))
			cp := i.Copy()
			cp.RmDesc(Descriptor{Digest: vhD[next(3)]})
		}
		vh.Note(strconv.Itoa(k) + " " + vtDump(&i))
	}
	// media type helpers and JSON round trips
	for _, a := range [][]string{{"a/b, " + MediaTypeOCI1Manifest + ";q=0.5"}, {"x", " " + MediaTypeOCI1ManifestList + " "}, {}, {"*/*"}} {
		vh.Note("accepts " + strconv.FormatBool(MediaTypeAccepts(MediaTypeOCI1Manifest, a)) + strconv.FormatBool(MediaTypeAccepts(MediaTypeOCI1ManifestList, a)))
	}
	for _, raw := range []string{`{"mediaType":"x"}`, `{"manifests":[{"mediaType":"application/vnd.docker.x"}]}`, `{"config":{"mediaType":"application/vnd.oci.image.config.v1+json"}}`, `{`, `[]`, `{"schemaVersion":2,"manifests":null,"subject":{"digest":"sha256:00","size":-1,"data":"AAEC"},"annotations":{"<k>":"&v"}}`} {
		vh.Note("detect " + MediaTypeDetect([]byte(raw)))
		ix := Index{Annotations: map[string]string{"keep": "1"}}
		err := json.Unmarshal([]byte(raw), &ix)
		b, _ := json.Marshal(ix)
		vh.Note("roundtrip " + strconv.FormatBool(err == nil) + " " + string(b))
		s, r, rerr := ManifestReferrerDescriptor([]byte(raw), Descriptor{MediaType: "m"})
		vh.Note("referrer " + string(s.Digest) + " " + r.MediaType + " " + strconv.FormatBool(rerr == nil))
	}
	vh.Cover("VT.index-end")
}
