package cache

// C20: the bounded cache never drops an entry without its cleanup.

import (
	"errors"
	"time"

	"github.com/olareg/olareg/internal/verifenv/vclock"
	"github.com/olareg/olareg/internal/verifenv/vh"
)

type vhItem struct{ id string }

type vhCalls struct {
	log   []string // "pre:k", "fn:k", "post:k"
	fail  map[string]bool
	fnN   map[string]int
	fnOK  map[string]bool
	order bool // pre/fn/post discipline respected
	open  string
	hook  func(k string) // runs once, inside the next cleanup call (the cache lock is released there)
}

func (c *vhCalls) pre(k string, v *vhItem) {
	if c.open != "" {
		c.order = false
	}
	c.open = k
	c.log = append(c.log, "pre:"+k)
}

func (c *vhCalls) post(k string, v *vhItem) {
	if c.open != k {
		c.order = false
	}
	c.open = ""
	c.log = append(c.log, "post:"+k)
}

func (c *vhCalls) fn(k string, v *vhItem) error {
	c.log = append(c.log, "fn:"+k)
	c.fnN[k]++
	if c.hook != nil {
		h := c.hook
		c.hook = nil
		h(k)
	}
	if v == nil || v.id != k {
		c.order = false
	}
	if c.fail[k] {
		return errors.New("cleanup failed")
	}
	c.fnOK[k] = true
	return nil
}

var vhKeys = []string{"k0", "k1", "k2"}

var vhCounts = []int{-1, 0, 1, 2, 3, 4, 10, 11}

// vhCacheSetup builds a cache in an arbitrary state.
func vhCacheSetup(maxEntries int, withPrePost bool) (*Cache[string, *vhItem], *vhCalls, map[string]int64) {
	vclock.Reset()
	calls := &vhCalls{fail: map[string]bool{}, fnN: map[string]int{}, fnOK: map[string]bool{}, order: true}
	age := time.Duration(vh.Int64("age"))
	vh.Assume(age > -(1<<40) && age < (1<<50))
	// Count from a finite set (the float low-water mark is then computed exactly by
	// evaluation); the full int range of Count is covered by VH_C20_LowWater
	count := vhCounts[vh.Choice("count", len(vhCounts))]
	opts := Opts[string, *vhItem]{Age: age, Count: count}
	if vh.Bool("hasPruneFn") {
		opts.PruneFn = calls.fn
		if withPrePost {
			opts.PrunePreFn = calls.pre
			opts.PrunePostFn = calls.post
		}
	}
	c := New(opts)
	// maxAge = Age + Age/10 only decides whether a timer is armed (its duration is not
	// modelled): it is abstracted by ANY value M with the contract that VH_C20_MaxAge
	// proves for New over the same Age range: M > 0 <=> Age > 0, and Age > 0 => M >= Age.
	m := time.Duration(vh.Int64("maxAge"))
	vh.Assume((m > 0) == (age > 0))
	vh.Assume(age <= 0 || m >= age)
	c.maxAge = m
	// arbitrary contents: every state is reachable by Set at the chosen instants
	used := map[string]int64{}
	now := vclock.LastNs()
	for k := 0; k < maxEntries; k++ {
		key := vhKeys[k]
		if vh.Bool("has_" + key) {
			t := vh.Int64("used_" + key)
			vh.Assume(t >= vclock.Epoch-(1<<50) && t <= now)
			c.entries[key] = &Entry[*vhItem]{used: vclock.At(t), value: &vhItem{id: key}}
			used[key] = t
		}
		calls.fail[key] = vh.Bool("fail_" + key)
	}
	if len(c.entries) > 0 && c.maxAge > 0 {
		c.timer = vclock.AfterFunc(c.maxAge, c.pruneAge)
	}
	vclock.SetSymbolic(true)
	return c, calls, used
}

func vhHas(c *Cache[string, *vhItem], k string) bool { _, ok := c.entries[k]; return ok }

// vhCheckCleanup: O1/O2 for every key.
func vhCheckCleanup(c *Cache[string, *vhItem], calls *vhCalls, pre map[string]int64, hasFn bool) {
	for _, k := range vhKeys {
		_, was := pre[k]
		if was && !vhHas(c, k) && hasFn {
			vh.Assert(calls.fnOK[k], "C20.removed-without-successful-cleanup")
			vh.Cover("C20.removed")
		}
		if was && calls.fnN[k] > 0 && calls.fail[k] && !calls.fnOK[k] {
			vh.Assert(vhHas(c, k), "C20.failed-cleanup-entry-kept")
			vh.Cover("C20.failed-kept")
		}
	}
	vh.Assert(calls.order, "C20.pre-fn-post-order")
}

// VH_C20_Step: one operation from any cache state.
func VH_C20_Step() {
	n := vh.Param("N", 3)
	c, calls, pre := vhCacheSetup(n, true)
	hasFn := c.pruneFn != nil
	age, count := c.minAge, c.maxCount
	op := vh.Choice("op", 6)
	switch op {
	case 0: // Set, followed by the pruning goroutine it may have spawned
		k := vhKeys[vh.Choice("key", n)]
		t0 := vclock.LastNs()
		c.Set(k, &vhItem{id: k})
		vh.Assert(vhHas(c, k), "C20.set-present")
		// a Set is a use: the entry's last-use instant is the clock reading of the Set
		vh.Assert(vclock.Ns(c.entries[k].used) >= t0 && c.entries[k].value.id == k, "C20.set-counts-as-use")
		_, was := pre[k]
		if !was {
			pre[k] = vclock.LastNs()
		}
		lenAfterSet := len(c.entries)
		vh.Sched()
		vhCheckCleanup(c, calls, pre, hasFn)
		anyFail := false
		for _, key := range vhKeys {
			if calls.fnN[key] > 0 && calls.fail[key] {
				anyFail = true
			}
		}
		if count > 0 && lenAfterSet > count && !anyFail {
			vh.Tag("clause", "prune-to-limit")
			vh.Cover("C20.over-limit")
			vh.Assert(len(c.entries) <= count, "C20.pruned-to-limit")
		}
		if count <= 0 || lenAfterSet <= count {
			vh.Assert(len(c.entries) == lenAfterSet, "C20.no-prune-within-limit")
		}
		// least recently used first: no kept entry is older than an evicted one
		for _, e := range vhKeys {
			te, wasE := pre[e]
			if !wasE || vhHas(c, e) || e == k {
				continue
			}
			for _, kept := range vhKeys {
				tk, wasK := pre[kept]
				if wasK && vhHas(c, kept) && kept != k && !calls.fail[kept] {
					vh.Assert(te <= tk, "C20.lru-order")
					vh.Cover("C20.lru")
				}
			}
		}
	case 1: // Get
		k := vhKeys[vh.Choice("key", n)]
		t0 := vclock.LastNs()
		v, err := c.Get(k)
		_, was := pre[k]
		vh.Assert((err == nil) == was, "C20.get")
		if was {
			vh.Assert(v != nil && v.id == k, "C20.get-value")
			vh.Assert(vclock.Ns(c.entries[k].used) >= t0, "C20.get-counts-as-use")
		}
		vh.Assert(len(c.entries) == len(pre) && len(calls.log) == 0, "C20.get-pure")
	case 2: // Delete
		k := vhKeys[vh.Choice("key", n)]
		err := c.Delete(k)
		_, was := pre[k]
		vhCheckCleanup(c, calls, pre, hasFn)
		if was && hasFn && calls.fail[k] {
			vh.Assert(err != nil && vhHas(c, k), "C20.delete-failed-kept")
		} else {
			vh.Assert(err == nil && !vhHas(c, k), "C20.delete")
		}
		for _, o := range vhKeys {
			if _, w := pre[o]; w && o != k {
				vh.Assert(vhHas(c, o), "C20.delete-others")
			}
		}
	case 3: // DeleteAll
		_ = c.DeleteAll()
		vhCheckCleanup(c, calls, pre, hasFn)
		for _, k := range vhKeys {
			if _, w := pre[k]; w {
				vh.Assert(vhHas(c, k) == (hasFn && calls.fail[k]), "C20.deleteall")
			}
		}
	case 4: // the age timer fires
		c.pruneAge()
		now := vclock.LastNs()
		vhCheckCleanup(c, calls, pre, hasFn)
		for _, k := range vhKeys {
			if t, w := pre[k]; w {
				if age <= 0 || now-t <= int64(age) {
					vh.Assert(vhHas(c, k), "C20.expired-while-used-within-age")
					vh.Cover("C20.age-kept")
				} else if !(hasFn && calls.fail[k]) {
					vh.Assert(!vhHas(c, k), "C20.age-expired")
					vh.Cover("C20.age-removed")
				}
			}
		}
	case 5: // count pruning runs on its own (spawned earlier, arbitrary state now)
		c.pruneCount()
		vhCheckCleanup(c, calls, pre, hasFn)
		if count <= 0 || len(pre) <= count {
			// within the limit nothing may be evicted ... down to the low-water mark only
			// when the limit is exceeded; pruneCount itself prunes to minCount whenever
			// it runs, so only the cleanup/LRU clauses are asserted here.
		}
		for _, e := range vhKeys {
			te, wasE := pre[e]
			if !wasE || vhHas(c, e) {
				continue
			}
			for _, kept := range vhKeys {
				tk, wasK := pre[kept]
				if wasK && vhHas(c, kept) && !calls.fail[kept] {
					vh.Assert(te <= tk, "C20.lru-order")
				}
			}
		}
	}
	// the expiry timer is armed whenever entries remain and expiry is configured
	if len(c.entries) > 0 && c.maxAge > 0 && op != 5 {
		vh.Assert(c.timer != nil && c.timer.Active(), "C20.timer-armed")
	}
	vh.Cover("C20.step-end")
}

// VH_C20_LowWater: the low-water mark kernel over the FULL range of Count.
func VH_C20_LowWater() {
	count := vh.Int("count")
	c := New(Opts[string, *vhItem]{Count: count})
	if count > 0 {
		vh.Tag("clause", "low-water")
		vh.Cover("C20.lowwater")
		// pruning can only bring the cache back to the limit if the low-water mark is
		// positive (pruneCount returns at once otherwise) and not above the limit
		vh.Assert(c.minCount >= 1, "C20.lowwater-positive")
		vh.Assert(c.minCount <= count, "C20.lowwater-below-limit")
	} else {
		vh.Assert(c.minCount == 0 && c.maxCount == count, "C20.lowwater-disabled")
	}
}

// VH_C20_MaxAge: the contract of the maxAge abstraction used by VH_C20_Step.
func VH_C20_MaxAge() {
	age := time.Duration(vh.Int64("age"))
	vh.Assume(age > -(1<<40) && age < (1<<50))
	c := New(Opts[string, *vhItem]{Age: age})
	vh.Assert(c.minAge == age, "C20.minage")
	vh.Assert((c.maxAge > 0) == (age > 0), "C20.maxage-sign")
	vh.Assert(age <= 0 || c.maxAge >= age, "C20.maxage-not-below-age")
	vh.Cover("C20.maxage")
}

// VH_C20_History: histories of K operations from the EMPTY cache built by New, with the
// pruning goroutines that Set spawns left pending until a "settle" operation (or the
// end): everything the step harness cannot see because it constructs the state directly
// (state that only a real history produces, pruning that runs after later operations).
// Symbolic: Count in {1,2}, expiry on or off, cleanup function absent / succeeding /
// failing for one key, every operation and key (two keys + one extra for Count=2).  At
// every quiescent point (all spawned goroutines done): with succeeding cleanups the cache
// is within its limit; whatever disappeared had a successful cleanup; the expiry timer is
// armed while entries remain; an entry used within the age is not expired by the timer.
func VH_C20_History() {
	k := vh.Param("K", 5)
	vclock.Reset()
	calls := &vhCalls{fail: map[string]bool{}, fnN: map[string]int{}, fnOK: map[string]bool{}, order: true}
	count := 1 + vh.Choice("count", 2)
	keys := vhKeys[:count+1]
	age := time.Duration(0)
	expiry := vh.Bool("expiry")
	if expiry {
		age = 10 * time.Second
		k-- // the expiry alphabet is larger: one operation less
	}
	opts := Opts[string, *vhItem]{Age: age, Count: count}
	fnMode := vh.Choice("cleanup", 3) // none, succeeds, fails for k0
	hasFn := fnMode > 0
	anyFail := fnMode == 2
	if hasFn {
		opts.PruneFn = calls.fn
		opts.PrunePreFn = calls.pre
		opts.PrunePostFn = calls.post
		calls.fail["k0"] = anyFail
	}
	c := New(opts)
	lastUse := map[string]int64{} // keys the history believes present -> last use
	// another client inserts a key while a cleanup callback of Delete or DeleteAll runs
	// (both release the cache lock around the callback; the pruners do not): at most once
	// per history, always the last key of the universe
	delAll := vh.Param("DELALL", 0) == 1
	hookUsed := false
	armHook := func() {
		if !hasFn || !delAll || hookUsed || !vh.Bool("setDuringCleanup") {
			return
		}
		hookUsed = true
		key := keys[len(keys)-1]
		calls.hook = func(cleaned string) {
			if key == cleaned {
				return // (re-inserting the key that is being cleaned is a different story)
			}
			c.Set(key, &vhItem{id: key})
			calls.fnOK[key] = false
			lastUse[key] = vclock.LastNs()
			vh.Cover("C20.set-during-cleanup")
		}
	}
	quiescent := func() {
		vh.Sched()
		for _, key := range keys {
			if _, was := lastUse[key]; was && !vhHas(c, key) {
				if hasFn {
					vh.Assert(calls.fnOK[key], "C20.removed-without-successful-cleanup")
				}
				delete(lastUse, key)
				calls.fnOK[key] = false
			}
		}
		vh.Assert(calls.order, "C20.pre-fn-post-order")
		if !anyFail {
			vh.Assert(len(c.entries) <= count, "C20.pruned-to-limit")
			vh.Cover("C20.history-limit-checked")
		}
		if len(c.entries) > 0 && c.maxAge > 0 {
			vh.Assert(c.timer != nil && c.timer.Active(), "C20.timer-armed")
		}
	}
	// operation alphabet: Set, Delete, settle; DeleteAll (and the insertion during a
	// cleanup callback) with DELALL=1; Get and the timers with expiry on
	opsList := []int{0, 1, 2}
	if delAll {
		opsList = append(opsList, 3)
	}
	if expiry {
		opsList = append(opsList, 4, 5)
	}
	for step := 0; step < k; step++ {
		vclock.Advance(time.Second)
		op := opsList[vh.Choice("op", len(opsList))]
		switch op {
		case 0: // Set
			key := keys[vh.Choice("key", len(keys))]
			c.Set(key, &vhItem{id: key})
			vh.Assert(vhHas(c, key), "C20.set-present")
			calls.fnOK[key] = false
			lastUse[key] = vclock.LastNs()
		case 1: // Delete
			key := keys[vh.Choice("key", len(keys))]
			armHook()
			err := c.Delete(key)
			calls.hook = nil
			if _, was := lastUse[key]; was && vhHas(c, key) {
				vh.Assert(err != nil && hasFn && calls.fail[key], "C20.delete")
			}
			if _, was := lastUse[key]; was && !vhHas(c, key) {
				if hasFn {
					vh.Assert(calls.fnOK[key], "C20.removed-without-successful-cleanup")
				}
				delete(lastUse, key)
				calls.fnOK[key] = false
			}
		case 2: // the pending pruning goroutines run now
			quiescent()
			vh.Cover("C20.history-settled")
		case 3: // DeleteAll
			armHook()
			_ = c.DeleteAll()
			calls.hook = nil
			for _, key := range keys {
				if _, was := lastUse[key]; was && !vhHas(c, key) {
					if hasFn {
						vh.Assert(calls.fnOK[key], "C20.removed-without-successful-cleanup")
					}
					delete(lastUse, key)
					calls.fnOK[key] = false
				}
			}
		case 4: // Get (a use)
			key := keys[vh.Choice("key", len(keys))]
			if _, err := c.Get(key); err == nil {
				lastUse[key] = vclock.LastNs()
			}
		case 5: // time passes (1 s or 20 s) and every armed timer fires
			if vh.Bool("far") {
				vclock.Advance(20 * time.Second)
			}
			pending := len(c.entries) > count // a count eviction may still be pending
			for _, t := range vclock.Armed() {
				if f := t.Func(); f != nil {
					f()
				}
			}
			now := vclock.LastNs()
			if !pending {
				for key, t := range lastUse {
					if now-t <= int64(age) {
						vh.Assert(vhHas(c, key), "C20.expired-while-used-within-age")
					}
				}
			}
		}
	}
	quiescent()
	vh.Cover("C20.history-end")
}
