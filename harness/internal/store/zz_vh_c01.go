package store

// C01 (store level): whatever order the operations of an upload session come in, a
// blob is only ever stored under the digest of its bytes.

import (
	"strconv"

	digest "github.com/opencontainers/go-digest"

	"github.com/olareg/olareg/internal/verifenv/vh"
)

var vhAlgos = []digest.Algorithm{digest.SHA256, digest.SHA384, digest.SHA512, digest.Algorithm("md5")}

// VH_C01_Session: any option, any sequence of <=K operations on one upload object.
func VH_C01_Session() {
	vhReset()
	st := vhNewStore(vhConf(vhStoreKind("dir")))
	repo := vhRepo(st, "a")
	contents := [][]byte{{}, []byte("x"), []byte("y")}
	var opts []BlobOpt
	var expect digest.Digest
	switch vh.Choice("opt", 3) {
	case 1:
		opts = append(opts, BlobWithAlgorithm(vhAlgos[vh.Choice("optAlgo", 4)]))
	case 2:
		es := []digest.Digest{
			digest.SHA256.FromBytes([]byte("x")), digest.SHA256.FromBytes([]byte("xy")), digest.SHA512.FromBytes([]byte("x")),
			digest.SHA384.FromBytes([]byte("")), digest.Digest("sha256:zz"), digest.Digest("md5:d41d8cd98f00b204e9800998ecf8427e"),
		}
		expect = es[vh.Choice("expect", len(es))]
		opts = append(opts, BlobWithDigest(expect))
	}
	bc, _, err := repo.BlobCreate(opts...)
	if err != nil {
		// refused options: unavailable algorithm or invalid digest
		vh.Assert(bc == nil, "C01.create-refused-no-session")
		vh.Assert(vhAllBlobsHashToName(repo, "a"), "C01.stored-hashes-to-name")
		vh.Cover("C01.create-refused")
		return
	}
	vh.Assert(expect == "" || expect.Validate() == nil, "C01.invalid-expect-accepted")
	var written []byte
	closed := false
	k := vh.Param("K", 3)
	for n := 0; n < k; n++ {
		switch vh.Choice("op", 5) {
		case 0:
			c := contents[vh.Choice("content", len(contents))]
			vh.Note("Write " + strconv.Itoa(len(c)))
			nw, werr := bc.Write(c)
			if werr == nil {
				vh.Assert(nw == len(c), "C01.write-count")
				written = append(written, c...)
				vh.Assert(!closed, "C01.write-after-end")
			}
		case 1:
			a := vhAlgos[vh.Choice("algo", 4)]
			vh.Note("ChangeAlgorithm " + string(a))
			cerr := bc.ChangeAlgorithm(a)
			if cerr == nil {
				vh.Assert(a.Available(), "C01.unavailable-algorithm-accepted")
			}
		case 2:
			ds := []digest.Digest{
				digest.SHA256.FromBytes(written), digest.SHA384.FromBytes(written), digest.SHA512.FromBytes(written),
				digest.SHA256.FromBytes([]byte("other")), digest.Digest("sha256:zz"), expect,
			}
			d := ds[vh.Choice("verify", len(ds))]
			vh.Note("Verify " + string(d))
			verr := bc.Verify(d)
			if verr == nil {
				vh.Assert(d.Validate() == nil && d.Algorithm().FromBytes(written) == d, "C01.verify-accepts-only-true-digest")
				vh.Cover("C01.verified")
			}
		case 3:
			vh.Note("Close")
			before := bc.Digest()
			cerr := bc.Close()
			if cerr == nil {
				got := before.Algorithm().FromBytes(written)
				vh.Assert(before == got, "C01.session-digest-is-digest-of-written")
				rdr, gerr := repo.BlobGet(got)
				vh.Assert(gerr == nil, "C01.closed-blob-readable")
				if gerr == nil {
					vh.Assert(vhBytesEq(vhReadAll(rdr), written), "C01.closed-blob-bytes")
					_ = rdr.Close()
				}
				if expect != "" {
					vh.Assert(got == expect, "C01.close-respects-expected-digest")
				}
				vh.Cover("C01.closed")
				closed = true
			}
		case 4:
			vh.Note("Cancel")
			_ = bc.Cancel()
			closed = true
		}
		vh.Assert(vhAllBlobsHashToName(repo, "a"), "C01.stored-hashes-to-name")
	}
	repo.Done()
	vh.Cover("C01.session-end")
}
