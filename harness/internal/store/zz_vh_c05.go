package store

// C05 / C06: garbage collection on arbitrary small object graphs with aliased digests,
// arbitrary blob ages, every policy combination, both stores.  The graph is made of
// real documents (real JSON, real digests) stored through the real upload objects; the
// real repo.gc() (repoGarbageCollect + dirRepo.gc / memRepo.gc) is executed.

import (
	"encoding/json"
	"time"

	digest "github.com/opencontainers/go-digest"

	"github.com/olareg/olareg/config"
	"github.com/olareg/olareg/internal/verifenv/vclock"
	"github.com/olareg/olareg/internal/verifenv/vh"
	"github.com/olareg/olareg/internal/verifenv/vos"
	"github.com/olareg/olareg/types"
)

type vhNode struct {
	name     string
	body     []byte
	dig      digest.Digest
	mt       string   // "" = plain blob
	refs     []string // names of config/layers (images) or children (indexes)
	subject  string   // name of the subject (artifacts)
	respFor  string   // response index: name of the subject it serves
	stored   bool
	entry    int // 0 none, 1 untagged, 2 tagged
	ageNs    int64
	young    bool // symbolic: modified after the cutoff
	retained bool // symbolic: oracle
}

type vhGraph struct {
	nodes []*vhNode
	by    map[string]*vhNode
}

func (g *vhGraph) add(n *vhNode) *vhNode {
	n.dig = digest.Canonical.FromBytes(n.body)
	g.nodes = append(g.nodes, n)
	g.by[n.name] = n
	return n
}

func vhMarshal(v any) []byte {
	b, err := json.Marshal(v)
	if err != nil {
		panic(err)
	}
	return b
}

func (g *vhGraph) desc(name string) types.Descriptor {
	if n, ok := g.by[name]; ok {
		mt := n.mt
		if mt == "" {
			mt = types.MediaTypeOCI1Layer
		}
		return types.Descriptor{MediaType: mt, Digest: n.dig, Size: int64(len(n.body))}
	}
	// a digest outside the repository
	return types.Descriptor{MediaType: types.MediaTypeOCI1Manifest, Digest: digest.Canonical.FromBytes([]byte("outside-" + name)), Size: 7}
}

func (g *vhGraph) image(name string, refs []string, subject string) *vhNode {
	m := types.Manifest{SchemaVersion: 2, MediaType: types.MediaTypeOCI1Manifest, Config: g.desc(refs[0]), Annotations: map[string]string{"name": name}}
	for _, r := range refs[1:] {
		m.Layers = append(m.Layers, g.desc(r))
	}
	if subject != "" {
		s := g.desc(subject)
		m.Subject = &s
		m.ArtifactType = "application/vnd.test.art"
	}
	return g.add(&vhNode{name: name, body: vhMarshal(m), mt: types.MediaTypeOCI1Manifest, refs: refs, subject: subject})
}

func (g *vhGraph) index(name string, children []string) *vhNode {
	m := types.Index{SchemaVersion: 2, MediaType: types.MediaTypeOCI1ManifestList, Annotations: map[string]string{"name": name}}
	for _, c := range children {
		m.Manifests = append(m.Manifests, g.desc(c))
	}
	return g.add(&vhNode{name: name, body: vhMarshal(m), mt: types.MediaTypeOCI1ManifestList, refs: children})
}

// vhBuildGraph draws the object graph.  size: 0 small (quick), 1 larger (thorough).
func vhBuildGraph(size int) *vhGraph {
	g := &vhGraph{by: map[string]*vhNode{}}
	g.add(&vhNode{name: "C", body: []byte("{}")})
	g.add(&vhNode{name: "L1", body: []byte("layer-one")})
	g.add(&vhNode{name: "L2", body: []byte("layer-two")})
	g.image("X", []string{"C", "L1"}, "")
	// A's layer may be L2, shared L1, or the DIGEST OF MANIFEST X (a digest in two roles)
	layerK := vh.Choice("layerA", 3)
	layerA := []string{"L2", "X", "L1"}[layerK]
	g.image("A", []string{"C", layerA}, "")
	// (the third shape lists a child that is NOT a manifest: the descriptor of blob L1 with
	// a layer media type - legal, a manifest PUT only checks that the child exists)
	kids := [][]string{{"X"}, {"A"}, {"X", "L1"}, {"X", "A"}, {"missing"}}
	kidsI := vh.Choice("childrenI", 3+2*size)
	g.index("I", kids[kidsI])
	// an artifact R with a subject, and the stored referrers response for that subject
	// (the subject may be that non-manifest child: only together with it)
	subjK := vh.Choice("subjectR", 4+size)
	// (both tiers: the non-manifest child shape goes together with that child as subject
	// and one layer choice - the full product with the larger thorough universe was not
	// affordable)
	vh.Assume((kidsI == 2) == (subjK == 3))
	vh.Assume(kidsI != 2 || layerK == 0)
	subjR := []string{"X", "A", "I", "L1", "outside"}[subjK]
	r := g.image("R", []string{"C", "L2"}, subjR)
	resp := types.Index{SchemaVersion: 2, MediaType: types.MediaTypeOCI1ManifestList,
		Manifests: []types.Descriptor{{MediaType: r.mt, Digest: r.dig, Size: int64(len(r.body)), ArtifactType: "application/vnd.test.art"}}}
	g.add(&vhNode{name: "RespR", body: vhMarshal(resp), mt: types.MediaTypeOCI1ManifestList, refs: []string{"R"}, respFor: subjR})
	return g
}

func vhSetBlobTime(r Repo, repoName string, d digest.Digest, t time.Time) {
	switch rr := r.(type) {
	case *memRepo:
		if b := rr.blobs[d]; b != nil {
			b.m.mod = t
		}
	case *dirRepo:
		vos.SetMtime(vhRoot+"/"+repoName+"/blobs/"+d.Algorithm().String()+"/"+d.Encoded(), t)
	}
}

func vhBlobExists(r Repo, d digest.Digest) bool {
	_, err := r.blobMeta(d, true)
	return err == nil
}

func vhIndexOf(r Repo) *types.Index {
	switch rr := r.(type) {
	case *memRepo:
		return &rr.index
	case *dirRepo:
		return &rr.index
	}
	return nil
}

func vhHasEntry(i *types.Index, d digest.Digest, tag string, subject string) bool {
	for _, m := range i.Manifests {
		if m.Digest != d {
			continue
		}
		mt, ms := "", ""
		if m.Annotations != nil {
			mt, ms = m.Annotations[types.AnnotRefName], m.Annotations[types.AnnotReferrerSubject]
		}
		if mt == tag && ms == subject {
			return true
		}
	}
	return false
}

func vhHasTop(i *types.Index, d digest.Digest) bool {
	for _, m := range i.Manifests {
		if m.Digest == d {
			return true
		}
	}
	return false
}

type vhGCSetup struct {
	g       *vhGraph
	repo    Repo
	store   Store
	conf    config.Config
	grace   time.Duration
	untagged, emptyRepo, dangling, withSubj bool
}

// vhGCWorld stores the graph with symbolic ages and a symbolic policy.
func vhGCWorld(size int, exact bool) *vhGCSetup {
	vhReset()
	_ = size
	w := &vhGCSetup{}
	w.conf = vhConf(vhStoreKind("dir"))
	w.untagged, w.dangling, w.withSubj = vh.Bool("gcUntagged"), vh.Bool("gcDangling"), vh.Bool("gcWithSubj")
	w.emptyRepo = false
	w.conf.Storage.GC.Untagged = &w.untagged
	w.conf.Storage.GC.ReferrersDangling = &w.dangling
	w.conf.Storage.GC.ReferrersWithSubj = &w.withSubj
	w.conf.Storage.GC.EmptyRepo = &w.emptyRepo
	if vh.Bool("graceDisabled") {
		w.grace = -1
	} else if vh.Param("SYMGRACE", 0) == 1 {
		w.grace = time.Duration(vh.Int64("grace"))
		vh.Assume(w.grace > 0 && w.grace < 1<<50)
	} else {
		w.grace = 30 * time.Minute
	}
	w.conf.Storage.GC.GracePeriod = w.grace
	w.store = vhNewStore(w.conf)
	w.repo = vhRepo(w.store, "a")
	w.g = vhBuildGraph(size)
	// store blobs (every node may be absent as a blob, except the structural ones needed
	// for the scenario; absence of L1 exercises entries/refs without backing content)
	for _, n := range w.g.nodes {
		n.stored = true
		if size > 0 && (n.name == "L2" || n.name == "RespR") {
			n.stored = vh.Bool("stored_" + n.name)
		}
		if n.stored {
			bc, _, err := w.repo.BlobCreate(BlobWithDigest(n.dig))
			if err == nil {
				_, _ = bc.Write(n.body)
				_ = bc.Close()
			}
		}
	}
	// index entries
	for _, n := range w.g.nodes {
		if n.mt == "" || !n.stored {
			continue
		}
		d := types.Descriptor{MediaType: n.mt, Digest: n.dig, Size: int64(len(n.body))}
		if n.respFor != "" {
			// a referrers response entry (only meaningful if R is pushed)
			if w.g.by["R"].entry > 0 {
				d.Annotations = map[string]string{types.AnnotReferrerSubject: w.g.desc(n.respFor).Digest.String()}
				n.entry = 1
				_ = w.repo.IndexInsert(d, types.IndexWithChildren([]types.Descriptor{w.g.desc("R")}))
			}
			continue
		}
		if size > 0 {
			n.entry = vh.Choice("entry_"+n.name, 3)
		} else if n.name == "R" {
			n.entry = 2 * vh.Choice("entry_"+n.name, 2) // absent or tagged
		} else if n.name == "I" {
			n.entry = []int{0, 2, 3}[vh.Choice("entry_"+n.name, 3)] // absent, tagged, pushed then deleted by digest
		} else {
			n.entry = 1 + vh.Choice("entry_"+n.name, 2) // untagged or tagged
		}
		if n.name == "R" && n.entry == 2 {
			n.entry = 1
		}
		// an index is inserted as manifestPut does it: its children move to the child list
		var opts []types.IndexOpt
		if n.mt == types.MediaTypeOCI1ManifestList {
			var kids []types.Descriptor
			for _, r := range n.refs {
				kids = append(kids, w.g.desc(r))
			}
			opts = append(opts, types.IndexWithChildren(kids))
		}
		switch n.entry {
		case 1:
			_ = w.repo.IndexInsert(d, opts...)
		case 2:
			d.Annotations = map[string]string{types.AnnotRefName: "tag-" + n.name}
			_ = w.repo.IndexInsert(d, opts...)
		case 3:
			// pushed by digest and deleted again: its children stay known as children only
			_ = w.repo.IndexInsert(d, opts...)
			_ = w.repo.IndexRemove(types.Descriptor{MediaType: d.MediaType, Digest: d.Digest, Size: d.Size})
			n.entry = 0
		}
	}
	// push order: an untagged child of the present index I may have been pushed by digest
	// AFTER I (or its tag deleted after I was pushed): it then has an untagged top-level
	// entry of its own besides being a child of I
	if in := w.g.by["I"]; in.stored && in.entry > 0 {
		for _, cn := range in.refs {
			c, ok := w.g.by[cn]
			if !ok || !c.stored || c.entry != 1 || c.mt == "" {
				continue
			}
			if vh.Bool("late_" + c.name) {
				_ = w.repo.IndexInsert(types.Descriptor{MediaType: c.mt, Digest: c.dig, Size: int64(len(c.body))})
				vh.Cover("C05.child-with-own-untagged-entry")
			}
		}
	}
	// what the index really holds at top level (a response insertion moves the
	// manifests it lists to the child list, exactly as referrerAdd does)
	idxNow := vhIndexOf(w.repo)
	for _, n := range w.g.nodes {
		if n.mt == "" || n.respFor != "" {
			continue
		}
		switch {
		case vhHasEntry(idxNow, n.dig, "tag-"+n.name, ""):
			n.entry = 2
		case vhHasEntry(idxNow, n.dig, "", ""):
			n.entry = 1
		default:
			n.entry = 0
		}
	}
	// delete history: the blob of one listed manifest may have been removed by a blob
	// delete after its push, leaving a top-level entry without backing content
	if exact && vh.Param("ORPHAN", 0) == 1 {
		var cands []*vhNode
		for _, n := range w.g.nodes {
			if n.mt != "" {
				cands = append(cands, n)
			}
		}
		if k := vh.Choice("orphan", 1+len(cands)); k > 0 {
			n := cands[k-1]
			vh.Assume(n.stored && vhHasTop(idxNow, n.dig))
			vh.Assert(w.repo.BlobDelete(n.dig) == nil, "C06.setup-blob-delete")
			n.stored = false
			vh.Tag("orphan", n.name)
			vh.Cover("C06.orphan-entry")
		}
	}
	// ages: every blob gets an arbitrary modification instant <= now
	now := vclock.LastNs() + int64(time.Hour)
	for _, n := range w.g.nodes {
		if !n.stored {
			continue
		}
		if exact {
			// exactness is only claimed once the grace period has elapsed for everything
			n.ageNs = 0
			vhSetBlobTime(w.repo, "a", n.dig, vclock.At(vclock.Epoch-int64(2<<50)))
			continue
		}
		t := vh.Int64("mod_" + n.name)
		vh.Assume(t > vclock.Epoch-(1<<51) && t <= now)
		if n.respFor != "" {
			// the response is rewritten on every push of a referrer: never older than it
			vh.Assume(t >= w.g.by["R"].ageNs)
		}
		vhSetBlobTime(w.repo, "a", n.dig, vclock.At(t))
		n.ageNs = t
	}
	vclock.Advance(time.Hour)
	return w
}

// vhRetained computes the oracle: which nodes the statement says must survive.
// cutoff = now - grace is read from the clock after the collection (the collector's
// own reading is the last one handed out).
func (w *vhGCSetup) vhRetained(cutoffNs int64) {
	g := w.g
	for _, n := range g.nodes {
		n.young = vh.And(w.grace >= 0, n.ageNs > cutoffNs)
		n.retained = false
	}
	asManifest := map[string]bool{}
	for _, n := range g.nodes {
		if !n.stored || n.entry == 0 || n.mt == "" {
			continue
		}
		if n.respFor != "" {
			// a response kept on its own account only when dangling responses are kept
			// and it is not tied to its subject by policy
			continue
		}
		root := vh.Or(n.entry == 2, !w.untagged, n.young)
		asManifest[n.name] = root
	}
	// young blobs of any kind are never removed
	for _, n := range g.nodes {
		if n.stored {
			n.retained = n.young
		}
	}
	for round := 0; round < len(g.nodes)+1; round++ {
		for _, n := range g.nodes {
			if !n.stored || n.mt == "" {
				continue
			}
			am := asManifest[n.name]
			n.retained = vh.Or(n.retained, am)
			// content of a retained manifest
			for _, r := range n.refs {
				c, ok := g.by[r]
				if !ok || !c.stored {
					continue
				}
				c.retained = vh.Or(c.retained, am)
				if n.mt == types.MediaTypeOCI1ManifestList {
					// children of a retained index (and manifests listed by a retained
					// response) are retained AS MANIFESTS; a child that is not a manifest
					// has no content of its own, but it is a retained subject all the same:
					// its referrers are retained
					asManifest[c.name] = vh.Or(asManifest[c.name], am)
				}
			}
			// referrers of a retained subject, with their content
			if n.respFor != "" && n.entry > 0 {
				if s, ok := g.by[n.respFor]; ok && s.stored {
					asManifest[n.name] = vh.Or(asManifest[n.name], asManifest[s.name])
				}
			}
		}
	}
}

// VH_C05_Safety: a collection never removes retained or recent content.
func VH_C05_Safety() {
	w := vhGCWorld(vh.Param("SIZE", 0), false)
	g := w.g
	idxBefore := vhIndexOf(w.repo).Copy()
	w.repo.Done()
	err := w.repo.gc()
	vh.Assert(err == nil, "C05.gc-error")
	cutoff := vclock.LastNs() - int64(w.grace)
	if w.grace < 0 {
		cutoff = 0
	}
	// dirRepo.gc reads the clock again after the collection (indexSave): find the
	// collector's own reading: it is the first reading after our Advance; all our
	// instants are <= that, and later readings only move forward, so "young" judged
	// against the LAST reading is never more generous than the collector was.
	w.vhRetained(cutoff)
	idx := vhIndexOf(w.repo)
	for _, n := range g.nodes {
		if !n.stored {
			continue
		}
		vh.Tag("node", n.name)
		if !vhBlobExists(w.repo, n.dig) {
			vh.Assert(vh.Not(n.retained), "C05.retained-content-removed")
			vh.Cover("C05.removed-something")
		}
		// tagged entries and, with untagged collection off, all entries stay in the index
		if n.entry == 2 {
			vh.Assert(vhHasEntry(idx, n.dig, "tag-"+n.name, ""), "C05.tagged-entry-removed")
			vh.Assert(vhBlobExists(w.repo, n.dig), "C05.tagged-manifest-removed")
		}
		if n.entry == 1 && n.respFor == "" && !w.untagged {
			_, gerr := idx.GetDesc(n.dig.String())
			vh.Assert(gerr == nil, "C05.untagged-removed-while-untagged-off")
		}
		vh.Tag("node", "")
	}
	_ = idxBefore
	// every tagged image that was pushed completely stays completely pullable
	for _, n := range g.nodes {
		if n.entry != 2 || n.mt != types.MediaTypeOCI1Manifest {
			continue
		}
		complete := true
		for _, r := range n.refs {
			if c, ok := g.by[r]; !ok || !c.stored {
				complete = false
			}
		}
		if complete {
			for _, r := range n.refs {
				vh.Tag("node", n.name+"->"+r)
				vh.Assert(vhBlobExists(w.repo, g.by[r].dig), "C05.tagged-image-not-pullable")
				vh.Tag("node", "")
			}
			vh.Cover("C05.tagged-complete-image")
		}
	}
	vh.Cover("C05.safety-end")
}

// VH_C06_Exact: once the grace period has elapsed, one collection removes exactly the
// garbage and a second one changes nothing (policies with an unambiguous meaning).
func VH_C06_Exact() {
	w := vhGCWorld(vh.Param("SIZE", 0), true)
	g := w.g
	// policy combinations whose documented meaning is unambiguous
	vh.Assume(vh.Or(vh.And(!w.untagged, !w.dangling), vh.And(w.untagged, w.withSubj)))
	w.repo.Done()
	err := w.repo.gc()
	vh.Assert(err == nil, "C06.gc-error")
	w.vhRetained(1 << 62) // nothing is young
	// responses that are roots on their own account (dangling responses kept)
	resp := g.by["RespR"]
	respListed := resp.stored && resp.entry > 0
	if respListed {
		s, ok := g.by[resp.respFor]
		subjExists := ok && s.stored
		tied := subjExists && (w.withSubj || w.dangling)
		root := !tied && !w.dangling
		if root {
			resp.retained = true
			for _, r := range resp.refs {
				// the manifests it lists are walked as manifests
				c := g.by[r]
				if c.stored {
					c.retained = true
					for _, rr := range c.refs {
						if cc, ok := g.by[rr]; ok && cc.stored {
							cc.retained = true
						}
					}
				}
			}
		}
	}
	idx := vhIndexOf(w.repo)
	for _, n := range g.nodes {
		if !n.stored {
			continue
		}
		vh.Tag("node", n.name)
		exists := vhBlobExists(w.repo, n.dig)
		keep := vh.ConcreteBool(n.retained)
		vh.Assert(exists == keep, "C06.not-exactly-the-garbage")
		if !exists {
			_, gerr := idx.GetDesc(n.dig.String())
			vh.Assert(gerr != nil, "C06.index-entry-without-content")
			vh.Cover("C06.collected")
		}
		vh.Tag("node", "")
	}
	for _, m := range idx.Manifests {
		vh.Assert(vhBlobExists(w.repo, m.Digest), "C06.index-entry-without-content")
	}
	// convergence: a second pass changes nothing
	before := vhRepoState(w.repo, g)
	err = w.repo.gc()
	vh.Assert(err == nil, "C06.gc-error")
	vh.Assert(vhRepoState(w.repo, g) == before, "C06.second-pass-changed-something")
	vh.Cover("C06.exact-end")
}

func vhRepoState(r Repo, g *vhGraph) string {
	s := ""
	for _, n := range g.nodes {
		if vhBlobExists(r, n.dig) {
			s += n.name + "+"
		} else {
			s += n.name + "-"
		}
	}
	idx := vhIndexOf(r)
	for _, m := range idx.Manifests {
		s += "|" + m.Digest.Encoded()[:6]
		if m.Annotations != nil {
			s += m.Annotations[types.AnnotRefName] + "/" + m.Annotations[types.AnnotReferrerSubject]
		}
	}
	return s
}

// VH_C06_Pass: a failing or removed repository does not stop the store-wide pass.
func VH_C06_Pass() {
	vhReset()
	conf := vhConf(config.StoreDir)
	conf.Storage.GC.GracePeriod = -1
	vh.MapOrder(true)
	st := NewDir(conf).(*dir)
	names := []string{"a", "b", "c"}
	garbage := digest.Canonical.FromBytes([]byte("garbage"))
	img := []byte(`{"schemaVersion":2,"mediaType":"application/vnd.oci.image.manifest.v1+json","config":{"mediaType":"application/vnd.oci.empty.v1+json","digest":"sha256:44136fa355b3678a1146ad16f7e8649e94fb4fc21fe77e8310c060f61caaff8a","size":2},"layers":[]}`)
	for _, n := range names {
		r := vhRepo(st, n)
		vhPutBlob(r, []byte("garbage"))
		vhPutBlob(r, []byte("{}"))
		d := vhPutBlob(r, img)
		_ = r.IndexInsert(types.Descriptor{MediaType: types.MediaTypeOCI1Manifest, Digest: d, Size: int64(len(img)), Annotations: map[string]string{types.AnnotRefName: "t"}})
		r.Done()
	}
	// one repository (or none) is unhealthy
	bad := vh.Choice("bad", 4)
	kind := vh.Choice("kind", 2)
	if bad < 3 {
		p := vhRoot + "/" + names[bad]
		switch kind {
		case 0: // index.json corrupt
			vos.Put(p+"/index.json", []byte("{corrupt"), vclock.Now())
		case 1: // directory removed behind the store's back
			vos.Delete(p)
		}
		vh.Tag("bad", []string{"corrupt-index", "removed-dir"}[kind])
	}
	vclock.Advance(time.Hour)
	_ = st.gc(vclock.Now(), time.Time{})
	for k, n := range names {
		if k == bad {
			continue
		}
		r := vhRepo(st, n)
		vh.Tag("repo", n)
		vh.Assert(!vhBlobExists(r, garbage), "C06.healthy-repository-not-collected")
		vh.Tag("repo", "")
		r.Done()
	}
	vh.Cover("C06.pass-end")
}

// VH_C06_EmptyRepo: empty-repository removal keeps the layout consistent.
func VH_C06_EmptyRepo() {
	vhReset()
	conf := vhConf(config.StoreDir)
	yes := true
	conf.Storage.GC.EmptyRepo = &yes
	conf.Storage.GC.Untagged = &yes
	young := vh.Bool("youngBlobs")
	if young {
		conf.Storage.GC.GracePeriod = time.Hour
	} else {
		conf.Storage.GC.GracePeriod = -1
	}
	st := NewDir(conf)
	r := vhRepo(st, "a")
	scenario := vh.Choice("scenario", 5)
	switch scenario {
	case 4: // a complete untagged image: the pass itself empties the index
		vhPutBlob(r, []byte("{}"))
		img := []byte(`{"schemaVersion":2,"mediaType":"application/vnd.oci.image.manifest.v1+json","config":{"mediaType":"application/vnd.oci.empty.v1+json","digest":"sha256:44136fa355b3678a1146ad16f7e8649e94fb4fc21fe77e8310c060f61caaff8a","size":2},"layers":[]}`)
		d := vhPutBlob(r, img)
		_ = r.IndexInsert(types.Descriptor{MediaType: types.MediaTypeOCI1Manifest, Digest: d, Size: int64(len(img))})
	case 0: // only (possibly young) blobs, no manifest
		vhPutBlob(r, []byte("blob"))
	case 1: // nested repository a/b exists
		vhPutBlob(r, []byte("blob"))
		rb := vhRepo(st, "a/b")
		vhPutBlob(rb, []byte("nested"))
		rb.Done()
	case 2: // once held a sha384 blob
		bc, _, err := r.BlobCreate(BlobWithAlgorithm(digest.SHA384))
		if err == nil {
			_, _ = bc.Write([]byte("blob384"))
			_ = bc.Close()
		}
	case 3: // an upload directory left behind
		bc, _, err := r.BlobCreate()
		if err == nil {
			_ = bc.Cancel()
		}
	}
	r.Done()
	vh.Sched()
	vh.Tag("scenario", []string{"only-blobs", "nested-repository", "sha384-blob", "cancelled-upload", "untagged-image"}[scenario])
	_ = r.gc()
	dr := r.(*dirRepo)
	p := vhRoot + "/a"
	layout := vos.Exists(p+"/oci-layout") && vos.Exists(p+"/index.json")
	vh.Assert(dr.exists == layout, "C06.exists-flag-differs-from-layout")
	holdsBlob := false
	for _, f := range vos.List(p + "/blobs") {
		if f[len(f)-1] != '/' {
			holdsBlob = true
		}
	}
	if holdsBlob {
		vh.Assert(layout, "C06.blobs-without-layout")
		vh.Cover("C06.blobs-kept")
	} else if scenario != 1 {
		// nothing retained: the directory is gone
		vh.Assert(!vos.Exists(p), "C06.empty-repository-left-behind")
		vh.Cover("C06.removed-empty")
	}
	if scenario == 1 {
		// the nested repository is not the parent's garbage
		nb := digest.Canonical.FromBytes([]byte("nested"))
		vh.Assert(vos.Exists(p+"/b/oci-layout") && vos.Exists(p+"/b/index.json") && vhBytesEqS(vos.Bytes(p+"/b/blobs/sha256/"+nb.Encoded()), []byte("nested")), "C06.nested-repository-damaged")
		vh.Cover("C06.nested-checked")
	}
	// a later push is a valid layout again
	r2 := vhRepo(st, "a")
	vhPutBlob(r2, []byte("later"))
	r2.Done()
	vh.Assert(vos.Exists(p+"/oci-layout") && vos.Exists(p+"/index.json"), "C06.push-after-cleanup-not-a-layout")
	vh.Cover("C06.emptyrepo-end")
}

func vhBytesEqS(a, b []byte) bool {
	if len(a) != len(b) {
		return false
	}
	for i := range a {
		if a[i] != b[i] {
			return false
		}
	}
	return true
}

// VH_C06_LaterPass: the store-wide pass is not starved by its own "changed since the
// previous pass" window: garbage created at any instant after a pass is removed by the
// next pass, for every (disabled) grace period value.
func VH_C06_LaterPass() {
	vhReset()
	conf := vhConf(vhStoreKind("dir"))
	// the grace period is disabled by ANY negative duration, or is any positive duration
	graceOn := vh.Bool("graceOn")
	g := vh.Int64("grace")
	if graceOn {
		vh.Assume(g > 0 && g < 1<<42)
	} else {
		vh.Assume(g < 0 && g > -(1<<42))
	}
	conf.Storage.GC.GracePeriod = time.Duration(g)
	st := vhNewStore(conf)
	pass := func(cur, prev time.Time) {
		switch s := st.(type) {
		case *dir:
			_ = s.gc(cur, prev)
		case *mem:
			_ = s.gc(cur, prev)
		}
	}
	r := vhRepo(st, "a")
	img := []byte(`{"schemaVersion":2,"mediaType":"application/vnd.oci.image.manifest.v1+json","config":{"mediaType":"application/vnd.oci.empty.v1+json","digest":"sha256:44136fa355b3678a1146ad16f7e8649e94fb4fc21fe77e8310c060f61caaff8a","size":2},"layers":[]}`)
	vhPutBlob(r, []byte("{}"))
	d := vhPutBlob(r, img)
	_ = r.IndexInsert(types.Descriptor{MediaType: types.MediaTypeOCI1Manifest, Digest: d, Size: int64(len(img)), Annotations: map[string]string{types.AnnotRefName: "t"}})
	r.Done()
	// first pass (as the ticker's first tick: no previous pass)
	t1 := vclock.Now()
	pass(t1, time.Time{})
	// any time later garbage appears in the repository
	dt := vh.Int64("afterPass")
	vh.Assume(dt >= 0 && dt < 1<<44)
	vclock.Advance(time.Duration(dt))
	r = vhRepo(st, "a")
	garbage := vhPutBlob(r, []byte("garbage"))
	tGarbage := vclock.LastNs()
	r.Done()
	// any time later the repository may be changed again (a second tag on the image): its
	// last change is then younger than its garbage
	if vh.Bool("changedAgain") {
		dt3 := vh.Int64("beforeSecondChange")
		vh.Assume(dt3 >= 0 && dt3 < 1<<44)
		vclock.Advance(time.Duration(dt3))
		r = vhRepo(st, "a")
		_ = r.IndexInsert(types.Descriptor{MediaType: types.MediaTypeOCI1Manifest, Digest: d, Size: int64(len(img)), Annotations: map[string]string{types.AnnotRefName: "t2"}})
		r.Done()
		vh.Cover("C06.later-pass-changed-again")
	}
	// the next pass, any time later
	dt2 := vh.Int64("beforeNextPass")
	vh.Assume(dt2 >= 0 && dt2 < 1<<44)
	vclock.Advance(time.Duration(dt2))
	cur := vclock.Now()
	pass(cur, t1)
	r = vhRepo(st, "a")
	if !graceOn {
		vh.Assert(!vhBlobExists(r, garbage), "C06.repository-starved-by-pass-window")
	} else if vclock.Ns(cur)-tGarbage > g {
		// the grace period of the garbage had elapsed when the pass started
		vh.Assert(!vhBlobExists(r, garbage), "C06.repository-starved-by-pass-window")
		vh.Cover("C06.later-pass-grace-elapsed")
	}
	vh.Assert(vhBlobExists(r, d), "C06.tagged-removed")
	r.Done()
	vh.Cover("C06.later-pass-end")
}

// VH_C06_MemOverDir: the memory store layered over a populated root directory.  Two tagged
// images are written through the directory store (which is then abandoned), a memory
// store is opened over the same directory, a symbolic subset of the second image's
// content is pushed again (a copy in memory shadowing the copy in the directory), the
// image is deleted by digest or only untagged, and two collection passes run with the
// grace period disabled.  Exactly the garbage is gone after the FIRST pass as seen through
// the store (whatever copy a blob had), retained content is intact, no index entry lacks
// content, and the second pass changes nothing.  The directory itself is C14's subject.
func VH_C06_MemOverDir() {
	vhReset()
	ds := NewDir(vhConf(config.StoreDir))
	dr := vhRepo(ds, "a")
	g := &vhGraph{by: map[string]*vhNode{}}
	g.add(&vhNode{name: "C", body: []byte("{}")})
	g.add(&vhNode{name: "L1", body: []byte("layer-one")})
	g.add(&vhNode{name: "L2", body: []byte("layer-two")})
	g.image("X", []string{"C", "L1"}, "")
	g.image("A", []string{"C", "L2"}, "")
	for _, n := range g.nodes {
		vhPutBlob(dr, n.body)
		if n.mt != "" {
			_ = dr.IndexInsert(types.Descriptor{MediaType: n.mt, Digest: n.dig, Size: int64(len(n.body)), Annotations: map[string]string{types.AnnotRefName: "tag-" + n.name}})
		}
	}
	dr.Done()
	mconf := vhConf(config.StoreMem)
	mconf.Storage.RootDir = vhRoot
	untagged := vh.Bool("gcUntagged")
	mconf.Storage.GC.Untagged = &untagged
	ms := NewMem(mconf)
	mr := vhRepo(ms, "a")
	a := g.by["A"]
	aDesc := types.Descriptor{MediaType: a.mt, Digest: a.dig, Size: int64(len(a.body))}
	shadow := vh.Choice("shadow", 4)
	vh.Tag("shadow", []string{"none", "manifest", "layer", "manifest+layer"}[shadow])
	if shadow == 1 || shadow == 3 {
		// the manifest is pushed again under its tag, as manifestPut does it
		vhPutBlob(mr, a.body)
		d := aDesc
		d.Annotations = map[string]string{types.AnnotRefName: "tag-A"}
		_ = mr.IndexInsert(d)
	}
	if shadow == 2 || shadow == 3 {
		vhPutBlob(mr, g.by["L2"].body)
	}
	garbage := true
	if vh.Bool("deleteByDigest") {
		vh.Assert(mr.IndexRemove(aDesc) == nil, "C06.setup")
	} else {
		d := aDesc
		d.Annotations = map[string]string{types.AnnotRefName: "tag-A"}
		vh.Assert(mr.IndexRemove(d) == nil, "C06.setup")
		garbage = untagged
	}
	mr.Done()
	vclock.Advance(time.Hour)
	vh.Assert(mr.gc() == nil, "C06.gc-error")
	for _, n := range g.nodes {
		vh.Tag("node", n.name)
		keep := !(garbage && (n.name == "A" || n.name == "L2"))
		vh.Assert(vhBlobExists(mr, n.dig) == keep, "C06.not-exactly-the-garbage")
		if !keep {
			vh.Cover("C06.memoverdir-collected")
		}
		vh.Tag("node", "")
	}
	idx := vhIndexOf(mr)
	for _, m := range idx.Manifests {
		vh.Assert(vhBlobExists(mr, m.Digest), "C06.index-entry-without-content")
	}
	before := vhRepoState(mr, g)
	vh.Assert(mr.gc() == nil, "C06.gc-error")
	vh.Assert(vhRepoState(mr, g) == before, "C06.second-pass-changed-something")
	vh.Cover("C06.memoverdir-end")
}
