package store

// HoldRepoForTest lets a harness of another package hold a repository's block token
// exactly as repo.gc() does while it runs (injected by overlay, never in /repo).
func HoldRepoForTest(s Store, name string) func() {
	switch st := s.(type) {
	case *dir:
		if dr, err := st.repos.Get(name); err == nil {
			<-dr.wgBlock
			return func() { dr.wgBlock <- struct{}{} }
		}
	case *mem:
		if mr, ok := st.repos[name]; ok {
			<-mr.wgBlock
			return func() { mr.wgBlock <- struct{}{} }
		}
	}
	return func() {}
}
