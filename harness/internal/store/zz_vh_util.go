package store

// Shared helpers of the store-level harnesses (package store, injected by overlay).

import (
	"context"
	"io"
	"strings"

	digest "github.com/opencontainers/go-digest"

	"github.com/olareg/olareg/config"
	"github.com/olareg/olareg/internal/verifenv/vclock"
	"github.com/olareg/olareg/internal/verifenv/vh"
	"github.com/olareg/olareg/internal/verifenv/vos"
	"github.com/olareg/olareg/internal/verifenv/vrand"
)

const vhRoot = "/r"

func vhBoolPtr(b bool) *bool { return &b }

func vhReset() {
	vos.Reset()
	vclock.Reset()
	vrand.Reset()
	vos.PutDir(vhRoot, vclock.Last())
}

func vhConf(st config.Store) config.Config {
	c := config.Config{
		Storage: config.ConfigStorage{
			StoreType: st,
			GC:        config.ConfigGC{Frequency: -1, GracePeriod: -1},
		},
	}
	if st == config.StoreDir {
		c.Storage.RootDir = vhRoot
	}
	c.SetDefaults()
	return c
}

func vhNewStore(conf config.Config) Store {
	if conf.Storage.StoreType == config.StoreDir {
		return NewDir(conf)
	}
	return NewMem(conf)
}

func vhStoreKind(name string) config.Store {
	if vh.Bool(name) {
		return config.StoreDir
	}
	return config.StoreMem
}

func vhRepo(s Store, name string) Repo {
	r, err := s.RepoGet(context.Background(), name)
	if err != nil {
		panic("RepoGet: " + err.Error())
	}
	return r
}

func vhReadAll(r io.Reader) []byte {
	var out []byte
	buf := make([]byte, 32)
	for {
		n, err := r.Read(buf)
		out = append(out, buf[:n]...)
		if err != nil {
			return out
		}
	}
}

func vhBytesEq(a, b []byte) bool {
	if len(a) != len(b) {
		return false
	}
	for i := range a {
		if a[i] != b[i] {
			return false
		}
	}
	return true
}

// vhPutBlob stores content through the real upload object.
func vhPutBlob(r Repo, content []byte) digest.Digest {
	d := digest.Canonical.FromBytes(content)
	bc, _, err := r.BlobCreate(BlobWithDigest(d))
	if err != nil {
		return d
	}
	_, _ = bc.Write(content)
	_ = bc.Close()
	return d
}

// vhAllBlobsHashToName: every stored blob hashes to the digest it is stored under.
func vhAllBlobsHashToName(r Repo, repoName string) bool {
	switch rr := r.(type) {
	case *memRepo:
		for d, b := range rr.blobs {
			if b == nil {
				continue
			}
			if d.Validate() != nil || d.Algorithm().FromBytes(b.b) != d {
				return false
			}
		}
	case *dirRepo:
		prefix := vhRoot + "/" + repoName + "/blobs/"
		for _, p := range vos.List(prefix) {
			if strings.HasSuffix(p, "/") {
				continue
			}
			rest := p[len(prefix):]
			i := strings.Index(rest, "/")
			if i < 0 {
				return false
			}
			alg := digest.Algorithm(rest[:i])
			if !alg.Available() || alg.FromBytes(vos.Bytes(p)).Encoded() != rest[i+1:] {
				return false
			}
		}
	}
	return true
}
