package main

// C19 (flag wiring): every serve flag ends up in the configuration field it documents.

import (
	"fmt"
	"log/slog"
	"net/http"
	"net/url"
	"syscall"
	"time"

	digest "github.com/opencontainers/go-digest"
	"github.com/spf13/cobra"

	"github.com/olareg/olareg"
	"github.com/olareg/olareg/config"
	"github.com/olareg/olareg/internal/verifenv/vclock"
	"github.com/olareg/olareg/internal/verifenv/vh"
	"github.com/olareg/olareg/internal/verifenv/vhook"
	"github.com/olareg/olareg/internal/verifenv/vhttp"
	"github.com/olareg/olareg/internal/verifenv/vos"
	"github.com/olareg/olareg/internal/verifenv/vrand"
	"github.com/olareg/olareg/internal/verifenv/vsig"
)

// VH_C19_Flags: (*serveOpts).run with every option symbolic, up to olareg.New.
func VH_C19_Flags() {
	vhook.Captured = nil
	root := &rootOpts{}
	o := &serveOpts{
		root:             root,
		addr:             vh.Str("addr", "", "127.0.0.1"),
		port:             []int{0, 5000, 65535}[vh.Choice("port", 3)],
		tlsCert:          vh.Str("tlsCert", "", "c.pem"),
		tlsKey:           vh.Str("tlsKey", "", "k.pem"),
		storeType:        vh.Str("storeType", "dir", "mem", "MEM", "shared", "bogus", ""),
		storeDir:         vh.Str("storeDir", ".", "data"),
		storeRO:          vh.Bool("storeRO"),
		apiPush:          vh.Bool("apiPush"),
		apiDelete:        vh.Bool("apiDelete"),
		apiBlobDel:       vh.Bool("apiBlobDel"),
		apiReferrer:      vh.Bool("apiReferrer"),
		apiRateLimit:     vh.Int("rateLimit"),
		gcFreq:           time.Duration(vh.Int64("gcFreq")),
		gcGracePeriod:    time.Duration(vh.Int64("gcGrace")),
		gcUntagged:       vh.Bool("gcUntagged"),
		gcRefDangling:    vh.Bool("gcRefDangling"),
		gcRefWithSubject: vh.Bool("gcRefWithSubject"),
		warnings:         [][]string{nil, {"w1"}, {"w1", "w2"}}[vh.Choice("warnings", 3)],
	}
	var err error
	stopped := false
	func() {
		defer func() {
			if r := recover(); r != nil {
				if _, ok := r.(vhook.Stop); ok {
					stopped = true
					return
				}
				panic(r)
			}
		}()
		err = o.run(nil, nil)
	}()
	want := map[string]config.Store{"dir": config.StoreDir, "mem": config.StoreMem, "MEM": config.StoreMem, "shared": config.StoreShared}
	st, known := want[o.storeType]
	if !known {
		vh.Assert(!stopped && err != nil, "C19.unknown-store-type-accepted")
		vh.Cover("C19.unknown-store")
		return
	}
	vh.Assert(stopped && vhook.Captured != nil, "C19.new-not-reached")
	c := *vhook.Captured
	vh.Assert(c.HTTP.Addr == fmt.Sprintf("%s:%d", o.addr, o.port) && c.HTTP.CertFile == o.tlsCert && c.HTTP.KeyFile == o.tlsKey, "C19.flag-http")
	vh.Assert(c.Storage.StoreType == st && c.Storage.RootDir == o.storeDir, "C19.flag-store")
	vh.Assert(c.Storage.ReadOnly != nil && *c.Storage.ReadOnly == o.storeRO, "C19.flag-store-ro")
	vh.Assert(c.API.PushEnabled != nil && *c.API.PushEnabled == o.apiPush, "C19.flag-api-push")
	vh.Assert(c.API.DeleteEnabled != nil && *c.API.DeleteEnabled == o.apiDelete, "C19.flag-api-delete")
	vh.Assert(c.API.Blob.DeleteEnabled != nil && *c.API.Blob.DeleteEnabled == o.apiBlobDel, "C19.flag-api-blob-delete")
	vh.Assert(c.API.Referrer.Enabled != nil && *c.API.Referrer.Enabled == o.apiReferrer, "C19.flag-api-referrer")
	vh.Assert(c.API.RateLimit == o.apiRateLimit, "C19.flag-rate-limit")
	vh.Assert(c.Storage.GC.Frequency == o.gcFreq && c.Storage.GC.GracePeriod == o.gcGracePeriod, "C19.flag-gc-times")
	vh.Assert(c.Storage.GC.Untagged != nil && *c.Storage.GC.Untagged == o.gcUntagged, "C19.flag-gc-untagged")
	vh.Assert(c.Storage.GC.ReferrersDangling != nil && *c.Storage.GC.ReferrersDangling == o.gcRefDangling, "C19.flag-gc-dangling")
	vh.Assert(c.Storage.GC.ReferrersWithSubj != nil && *c.Storage.GC.ReferrersWithSubj == o.gcRefWithSubject, "C19.flag-gc-withsubj")
	vh.Assert(len(c.API.Warnings) == len(o.warnings), "C19.flag-warnings")
	// explicit values survive defaulting (a flag passed as false stays false)
	c.SetDefaults()
	vh.Assert(*c.API.PushEnabled == o.apiPush && *c.API.DeleteEnabled == o.apiDelete && *c.API.Blob.DeleteEnabled == o.apiBlobDel &&
		*c.API.Referrer.Enabled == o.apiReferrer && *c.Storage.ReadOnly == o.storeRO && *c.Storage.GC.Untagged == o.gcUntagged &&
		*c.Storage.GC.ReferrersDangling == o.gcRefDangling && *c.Storage.GC.ReferrersWithSubj == o.gcRefWithSubject, "C19.explicit-flag-overridden-by-default")
	vh.Cover("C19.flags-end")
}

// VH_C19_Signal: the serve command from its flags to its return.  (*serveOpts).run is
// executed with the real olareg.New, Server.Run and Server.Shutdown; the listener is the
// model server (vhttp.Server: ListenAndServe blocks until Shutdown) and signals are
// delivered by the harness (vsig).  Symbolic: what stops the server (SIGINT, SIGTERM, the
// command context), the store type, TLS files set or not, background collection on or
// off, whether something was pushed first.  Claimed: the command returns nil, the
// listener was shut down, the store was closed, and (directory store) a new server on
// the same directory serves what was acknowledged.  The signal arrives at a quiescent
// point (listener up, no request in flight); a signal racing with start-up is outside.
func VH_C19_Signal() {
	vhook.Captured, vhook.Server, vhook.Continue = nil, nil, true
	defer func() { vhook.Continue, vhook.Adjust = false, nil }()
	vos.Reset()
	vclock.Reset()
	vrand.Reset()
	vsig.Reset()
	vhttp.ResetServers()
	vos.PutDir("/r", vclock.Last())
	storeType := vh.Str("storeType", "dir", "mem")
	tls := vh.Bool("tls")
	gcOn := vh.Bool("gcOn")
	how := vh.Choice("stop", 3)
	vh.Tag("stop", []string{"SIGINT", "SIGTERM", "context"}[how])
	push := vh.Bool("pushFirst")
	o := &serveOpts{
		root:             &rootOpts{log: slog.Default()},
		addr:             "127.0.0.1",
		port:             5000,
		storeType:        storeType,
		storeDir:         "/r",
		apiPush:          true,
		apiReferrer:      true,
		gcFreq:           -1,
		gcGracePeriod:    time.Hour,
		gcRefWithSubject: true,
	}
	if tls {
		o.tlsCert, o.tlsKey = "c.pem", "k.pem"
	}
	if gcOn {
		o.gcFreq = time.Minute
	}
	cmd := &cobra.Command{}
	var pctx *vhttp.Ctx
	if how == 2 {
		pctx = vhttp.NewCtx()
		cmd.SetContext(pctx)
	}
	var err error
	returned := false
	vh.Go(func() {
		err = o.run(cmd, nil)
		returned = true
	})
	vh.Sched()
	vh.Assert(!returned, "C19.serve-returned-before-stop")
	vh.Assert(vhook.Server != nil && len(vhttp.Servers) == 1 && vhttp.Servers[0].Listening, "C19.serve-not-listening")
	hs := vhttp.Servers[0]
	vh.Assert(hs.Addr == "127.0.0.1:5000" && hs.TLS == tls && (!tls || (hs.CertFile == "c.pem" && hs.KeyFile == "k.pem")), "C19.listener-settings")
	blob := []byte("{}")
	bd := digest.Canonical.FromBytes(blob)
	man := []byte(`{"schemaVersion":2,"mediaType":"application/vnd.oci.image.manifest.v1+json","config":{"mediaType":"application/vnd.oci.image.config.v1+json","digest":"` + bd.String() + `","size":2},"layers":[]}`)
	if push {
		r := hs.Deliver(vhttp.Request("POST", "/v2/a/blobs/uploads/", url.Values{"digest": {bd.String()}}, nil, blob, int64(len(blob))))
		vh.Assert(r.Status() == 201, "C19.serve-push-blob")
		r = hs.Deliver(vhttp.Request("PUT", "/v2/a/manifests/t", nil, http.Header{"Content-Type": {"application/vnd.oci.image.manifest.v1+json"}}, man, int64(len(man))))
		vh.Assert(r.Status() == 201, "C19.serve-push-manifest")
		vh.Cover("C19.signal-after-push")
	}
	vh.Assert(vsig.Registered(vsig.Interrupt) >= 1 && vsig.Registered(syscall.SIGTERM) >= 1, "C19.signal-not-registered")
	switch how {
	case 0:
		vsig.Deliver(vsig.Interrupt)
	case 1:
		vsig.Deliver(syscall.SIGTERM)
	case 2:
		pctx.Cancel()
	}
	vh.Join()
	vh.Assert(returned, "C19.serve-did-not-return")
	vh.Assert(err == nil, "C19.serve-returned-error-on-clean-stop")
	vh.Assert(hs.Shut && !hs.Listening, "C19.listener-not-shut-down")
	// the store was closed by the shutdown: closing it again is refused
	vh.Assert(vhook.Server.Close() != nil, "C19.store-not-closed-by-shutdown")
	for _, t := range vclock.Tickers() {
		vh.Assert(t.Stopped(), "C19.collection-ticker-left-running")
	}
	// a request after the shutdown gets an answer (no panic, no hang)
	rec := vhttp.Serve(vhook.Server, vhttp.Request("GET", "/v2/", nil, nil, nil, 0))
	vh.Assert(!rec.Panicked, "C19.request-after-shutdown-panics")
	if push && storeType == "dir" {
		// storage intact: a new server on the same directory serves the acknowledged push
		conf := *vhook.Captured
		conf.Storage.GC.Frequency = -1
		s2 := olareg.New(conf)
		g := vhttp.Serve(s2, vhttp.Request("GET", "/v2/a/manifests/t", nil, http.Header{"Accept": {"application/vnd.oci.image.manifest.v1+json"}}, nil, 0))
		vh.Assert(g.Status() == 200 && string(g.Body) == string(man), "C19.storage-not-intact-after-stop")
		g = vhttp.Serve(s2, vhttp.Request("GET", "/v2/a/blobs/"+bd.String(), nil, nil, nil, 0))
		vh.Assert(g.Status() == 200 && string(g.Body) == string(blob), "C19.storage-not-intact-after-stop")
		_ = s2.Close()
		vh.Cover("C19.storage-intact")
	}
	vh.Cover("C19.signal-end")
}
