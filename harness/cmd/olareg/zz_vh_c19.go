package main

// C19 (flag wiring): every serve flag ends up in the configuration field it documents.

import (
	"fmt"
	"time"

	"github.com/olareg/olareg/config"
	"github.com/olareg/olareg/internal/verifenv/vh"
	"github.com/olareg/olareg/internal/verifenv/vhook"
)

// VH_C19_Flags: (*serveOpts).run with every option symbolic, up to olareg.New.
func VH_C19_Flags() {
	vhook.Captured = nil
	root := &rootOpts{}
	o := &serveOpts{
		root:             root,
		addr:             vh.Str("addr", "", "127.0.0.1"),
		port:             []int{0, 5000, 65535}[vh.Choice("port", 3)],
		tlsCert:          vh.Str("tlsCert", "", "c.pem"),
		tlsKey:           vh.Str("tlsKey", "", "k.pem"),
		storeType:        vh.Str("storeType", "dir", "mem", "MEM", "shared", "bogus", ""),
		storeDir:         vh.Str("storeDir", ".", "data"),
		storeRO:          vh.Bool("storeRO"),
		apiPush:          vh.Bool("apiPush"),
		apiDelete:        vh.Bool("apiDelete"),
		apiBlobDel:       vh.Bool("apiBlobDel"),
		apiReferrer:      vh.Bool("apiReferrer"),
		apiRateLimit:     vh.Int("rateLimit"),
		gcFreq:           time.Duration(vh.Int64("gcFreq")),
		gcGracePeriod:    time.Duration(vh.Int64("gcGrace")),
		gcUntagged:       vh.Bool("gcUntagged"),
		gcRefDangling:    vh.Bool("gcRefDangling"),
		gcRefWithSubject: vh.Bool("gcRefWithSubject"),
		warnings:         [][]string{nil, {"w1"}, {"w1", "w2"}}[vh.Choice("warnings", 3)],
	}
	var err error
	stopped := false
	func() {
		defer func() {
			if r := recover(); r != nil {
				if _, ok := r.(vhook.Stop); ok {
					stopped = true
					return
				}
				panic(r)
			}
		}()
		err = o.run(nil, nil)
	}()
	want := map[string]config.Store{"dir": config.StoreDir, "mem": config.StoreMem, "MEM": config.StoreMem, "shared": config.StoreShared}
	st, known := want[o.storeType]
	if !known {
		vh.Assert(!stopped && err != nil, "C19.unknown-store-type-accepted")
		vh.Cover("C19.unknown-store")
		return
	}
	vh.Assert(stopped && vhook.Captured != nil, "C19.new-not-reached")
	c := *vhook.Captured
	vh.Assert(c.HTTP.Addr == fmt.Sprintf("%s:%d", o.addr, o.port) && c.HTTP.CertFile == o.tlsCert && c.HTTP.KeyFile == o.tlsKey, "C19.flag-http")
	vh.Assert(c.Storage.StoreType == st && c.Storage.RootDir == o.storeDir, "C19.flag-store")
	vh.Assert(c.Storage.ReadOnly != nil && *c.Storage.ReadOnly == o.storeRO, "C19.flag-store-ro")
	vh.Assert(c.API.PushEnabled != nil && *c.API.PushEnabled == o.apiPush, "C19.flag-api-push")
	vh.Assert(c.API.DeleteEnabled != nil && *c.API.DeleteEnabled == o.apiDelete, "C19.flag-api-delete")
	vh.Assert(c.API.Blob.DeleteEnabled != nil && *c.API.Blob.DeleteEnabled == o.apiBlobDel, "C19.flag-api-blob-delete")
	vh.Assert(c.API.Referrer.Enabled != nil && *c.API.Referrer.Enabled == o.apiReferrer, "C19.flag-api-referrer")
	vh.Assert(c.API.RateLimit == o.apiRateLimit, "C19.flag-rate-limit")
	vh.Assert(c.Storage.GC.Frequency == o.gcFreq && c.Storage.GC.GracePeriod == o.gcGracePeriod, "C19.flag-gc-times")
	vh.Assert(c.Storage.GC.Untagged != nil && *c.Storage.GC.Untagged == o.gcUntagged, "C19.flag-gc-untagged")
	vh.Assert(c.Storage.GC.ReferrersDangling != nil && *c.Storage.GC.ReferrersDangling == o.gcRefDangling, "C19.flag-gc-dangling")
	vh.Assert(c.Storage.GC.ReferrersWithSubj != nil && *c.Storage.GC.ReferrersWithSubj == o.gcRefWithSubject, "C19.flag-gc-withsubj")
	vh.Assert(len(c.API.Warnings) == len(o.warnings), "C19.flag-warnings")
	// explicit values survive defaulting (a flag passed as false stays false)
	c.SetDefaults()
	vh.Assert(*c.API.PushEnabled == o.apiPush && *c.API.DeleteEnabled == o.apiDelete && *c.API.Blob.DeleteEnabled == o.apiBlobDel &&
		*c.API.Referrer.Enabled == o.apiReferrer && *c.Storage.ReadOnly == o.storeRO && *c.Storage.GC.Untagged == o.gcUntagged &&
		*c.Storage.GC.ReferrersDangling == o.gcRefDangling && *c.Storage.GC.ReferrersWithSubj == o.gcRefWithSubject, "C19.explicit-flag-overridden-by-default")
	vh.Cover("C19.flags-end")
}
