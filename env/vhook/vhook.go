// Package vhook replaces olareg.New inside cmd/olareg/serve.go (by the same source
// redirection that maps os to vos): it captures the configuration built from the
// flags and stops the command before any listener is started.
package vhook

import (
	"github.com/olareg/olareg"
	"github.com/olareg/olareg/config"
)

// Stop is the panic value that ends (*serveOpts).run after the capture.
type Stop struct{}

// Captured is the configuration handed to olareg.New.
var Captured *config.Config

// New captures conf and stops.
func New(conf config.Config) *olareg.Server {
	c := conf
	Captured = &c
	panic(Stop{})
}
