// Package vhook replaces olareg.New inside cmd/olareg/serve.go (by the same source
// redirection that maps os to vos): it captures the configuration built from the
// flags and either stops the command before any listener is started (default) or, with
// Continue set, builds the real server and lets the command go on.
package vhook

import (
	"github.com/olareg/olareg"
	"github.com/olareg/olareg/config"
)

// Stop is the panic value that ends (*serveOpts).run after the capture.
type Stop struct{}

// Captured is the configuration handed to olareg.New.
var Captured *config.Config

// Continue makes New build the real server instead of stopping.
var Continue bool

// Adjust, when set, edits the captured configuration before the server is built
// (the harness points the store at the model file system).
var Adjust func(*config.Config)

// Server is the server built in Continue mode.
var Server *olareg.Server

// New captures conf and stops, or builds the server.
func New(conf config.Config) *olareg.Server {
	c := conf
	Captured = &c
	if !Continue {
		panic(Stop{})
	}
	if Adjust != nil {
		Adjust(&conf)
	}
	Server = olareg.New(conf)
	return Server
}
