// Package vh is the harness API of the gosym symbolic executor.
//
// Under the engine every function here is intercepted by name: Int/Bool/Choice return
// fresh symbolic values, Assume/Assert become solver queries.  Compiled natively
// (replay) the same functions read the counterexample recorded by the engine, so a
// harness is an ordinary Go function in both worlds.
package vh

import (
	"encoding/json"
	"fmt"
	"os"
	"runtime"
	"strconv"
	"sync"
	"time"
)

type input struct {
	Name  string `json:"name"`
	Kind  string `json:"kind"`
	Value string `json:"value"`
}

// Replay is the file format written by the engine for a counterexample.
type Replay struct {
	Property string            `json:"property"`
	Harness  string            `json:"harness"`
	Package  string            `json:"package"`
	AssertID string            `json:"assert_id"`
	Message  string            `json:"message"`
	Tags     map[string]string `json:"tags,omitempty"`
	Params   map[string]int    `json:"params,omitempty"`
	Inputs   []input           `json:"inputs"`
	Notes    []string          `json:"notes,omitempty"`
}

var (
	replay   Replay
	pos      int
	failures []string
	covers   = map[string]int{}
	notes    []string
)

// StopReplay is the panic value that ends a native harness run at the first failed
// assertion (the recorded inputs end there).
type StopReplay struct{ ID string }

// AssumeFailed is the panic value of a violated assumption in a native run: the
// recorded model does not satisfy the harness' own assumptions (engine bug).
type AssumeFailed struct{}

// LoadReplay reads a counterexample file.
func LoadReplay(path string) error {
	b, err := os.ReadFile(path)
	if err != nil {
		return err
	}
	replay = Replay{}
	pos = 0
	failures = nil
	return json.Unmarshal(b, &replay)
}

// SetReplay installs inputs directly (translator validation).
func SetReplay(r Replay) { replay = r; pos = 0; failures = nil }

// Failures returns the assertion ids that failed natively.
func Failures() []string { return failures }

func next(name string) string {
	if pos >= len(replay.Inputs) {
		panic(fmt.Sprintf("vh: replay exhausted at input %q (#%d)", name, pos))
	}
	in := replay.Inputs[pos]
	pos++
	if in.Name != name {
		panic(fmt.Sprintf("vh: replay desynchronised: want %q, recorded %q (#%d)", name, in.Name, pos-1))
	}
	return in.Value
}

// Int returns an arbitrary int.
func Int(name string) int {
	v, _ := strconv.ParseInt(next(name), 10, 64)
	return int(v)
}

// Int64 returns an arbitrary int64.
func Int64(name string) int64 {
	v, _ := strconv.ParseInt(next(name), 10, 64)
	return v
}

// Bool returns an arbitrary bool.
func Bool(name string) bool { return next(name) == "1" }

// Choice returns an arbitrary value in [0,n).
func Choice(name string, n int) int {
	v, _ := strconv.ParseInt(next(name), 10, 64)
	return int(v)
}

// Str returns one of the candidates.
func Str(name string, cands ...string) string { return cands[Choice(name, len(cands))] }

// IntMarker returns a string that strconv.Atoi / ParseInt(·,10,64) turn into an
// arbitrary integer: under the engine a marker, natively the decimal text.
func IntMarker(name string) string { return next(name) }

// Param returns a bound of the harness chosen by the tier.
func Param(name string, def int) int {
	if v, ok := replay.Params[name]; ok {
		return v
	}
	return def
}

// Assume restricts the inputs.
func Assume(c bool) {
	if !c {
		panic(AssumeFailed{})
	}
}

// Assert states the property.
func Assert(c bool, id string) {
	if !c {
		failures = append(failures, id)
		panic(StopReplay{ID: id})
	}
}

// Cover marks a reachability witness.
func Cover(id string) { covers[id]++ }

// Tag adds a key/value to the signature of violations found later on this path.
func Tag(k, v string) {}

// Note adds a line to the trace of the path.
func Note(s string) { notes = append(notes, s) }

// Notes returns the trace of the native run.
func Notes() []string { return notes }

// Symbolic reports whether the engine is executing.
func Symbolic() bool { return false }

// And is a non-branching conjunction.
func And(cs ...bool) bool {
	for _, c := range cs {
		if !c {
			return false
		}
	}
	return true
}

// Or is a non-branching disjunction.
func Or(cs ...bool) bool {
	for _, c := range cs {
		if c {
			return true
		}
	}
	return false
}

// Not negates without branching.
func Not(c bool) bool { return !c }

// Implies is a non-branching implication.
func Implies(a, b bool) bool { return !a || b }

// IteInt selects without branching.
func IteInt(c bool, a, b int) int {
	if c {
		return a
	}
	return b
}

// Sched lets all spawned goroutines run until they finish or block.  Natively the Go
// scheduler cannot be asked for quiescence: the replay yields and sleeps a little so that
// goroutines woken by the harness (ticker, timers, eviction) get to run.
func Sched() {
	for k := 0; k < 4; k++ {
		runtime.Gosched()
		time.Sleep(2 * time.Millisecond)
	}
}

// Preempt enables context switches at synchronisation points, at most n per path.
func Preempt(n int) {}

// MapOrder makes the iteration order of maps a fork point from here on.  Natively the
// Go runtime picks the order at random: a replay is then repeated until the recorded
// order comes up (see OrderSensitive).
func MapOrder(on bool) {
	if on {
		orderSensitive = true
	}
}

var orderSensitive bool

// OrderSensitive reports whether the harness depends on map iteration order.
func OrderSensitive() bool { return orderSensitive }

// Rewind restarts the recorded inputs for another native attempt.
func Rewind() { pos = 0; failures = nil; notes = nil }

// Concrete forces a value to be concrete (forks over its feasible values).
func Concrete(v int) int { return v }

// ConcreteBool forces a bool to be concrete.
func ConcreteBool(b bool) bool { return b }

// Stop ends the path (nothing more to check).
func Stop() { panic(StopReplay{}) }

// Memo returns f(): under the engine the result of a CONCRETE, deterministic prefix is
// computed once per worker and reused on the following paths (key identifies it).
func Memo(key string, f func() string) string { return f() }

// LocksHeld returns the number of mutexes currently locked (engine only; 0 natively).
func LocksHeld() int { return 0 }

var joinWG sync.WaitGroup

// DeadlockDetected is the panic value of Join when the goroutines do not finish natively.
type DeadlockDetected struct{}

// Go starts f in a goroutine that Join waits for.
func Go(f func()) {
	joinWG.Add(1)
	go func() {
		defer joinWG.Done()
		f()
	}()
}

// Join waits until every goroutine started with Go has finished.  Under the engine a
// goroutine that can never finish makes the join block forever, which the engine
// reports as a deadlock; natively a watchdog reports it after a few seconds.
func Join() {
	if Symbolic() {
		joinWG.Wait()
		return
	}
	done := make(chan struct{})
	go func() { joinWG.Wait(); close(done) }()
	select {
	case <-done:
	case <-time.After(nativeJoinTimeout):
		failures = append(failures, "deadlock")
		panic(StopReplay{ID: "deadlock"})
	}
}

var nativeJoinTimeout = 5 * time.Second
