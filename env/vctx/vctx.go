// Package vctx replaces context.WithCancel/Background inside cmd/olareg/serve.go (source
// redirection): the real package context is built on atomics, which the engine does not
// model.  Contract kept: the child is cancelled by its cancel function or when the parent
// is done (whichever comes first), Done is closed exactly once, Err is nil before and
// context.Canceled (or the parent's error) after, cancel is idempotent.
package vctx

import (
	"context"
	"time"
)

type cctx struct {
	parent   context.Context
	done     chan struct{}
	err      error
	children []*cctx
}

type background struct{}

func (background) Deadline() (time.Time, bool) { return time.Time{}, false }
func (background) Done() <-chan struct{}       { return nil }
func (background) Err() error                  { return nil }
func (background) Value(key any) any           { return nil }

// Background returns a context that is never cancelled.
func Background() context.Context { return background{} }

// WithCancel returns a child of parent and its cancel function.
func WithCancel(parent context.Context) (context.Context, context.CancelFunc) {
	if parent == nil {
		panic("cannot create context from nil parent")
	}
	c := &cctx{parent: parent, done: make(chan struct{})}
	switch p := parent.(type) {
	case *cctx:
		if p.err != nil {
			c.cancel(p.err)
		} else {
			p.children = append(p.children, c)
		}
	default:
		if pd := parent.Done(); pd != nil {
			if parent.Err() != nil {
				c.cancel(parent.Err())
			} else {
				go func() {
					select {
					case <-pd:
						c.cancel(parent.Err())
					case <-c.done:
					}
				}()
			}
		}
	}
	return c, func() { c.cancel(context.Canceled) }
}

func (c *cctx) cancel(err error) {
	if c.err != nil {
		return
	}
	c.err = err
	close(c.done)
	for _, ch := range c.children {
		ch.cancel(err)
	}
	c.children = nil
}

func (c *cctx) Deadline() (time.Time, bool) { return c.parent.Deadline() }
func (c *cctx) Done() <-chan struct{}       { return c.done }
func (c *cctx) Err() error                  { return c.err }
func (c *cctx) Value(key any) any           { return c.parent.Value(key) }
