// Package vclock is the model clock that replaces time.Now/Since/AfterFunc/NewTicker in
// olareg.  Instants are nanoseconds; Now never goes backwards.  In symbolic mode every
// reading is an arbitrary instant >= the previous one (a fresh solver variable); in
// stepping mode it advances by one millisecond per reading.  Timers never fire by
// themselves: harnesses fire them explicitly at the points they choose.
package vclock

import (
	"time"

	"github.com/olareg/olareg/internal/verifenv/vh"
)

const (
	// Epoch is the first instant returned; the zero time.Time is far before it.
	Epoch = int64(1) << 50
	// Horizon bounds symbolic instants so that sums with durations cannot wrap.
	Horizon = int64(1) << 60
)

var (
	last     = Epoch
	symbolic bool
	once     bool    // symbolic mode: only the next reading is a fresh instant
	armed    bool
	Log      []int64 // every instant handed out, in order
	timers   []*Timer
	tickers  []*Ticker
	reads    int
)

// Reset restarts the clock in stepping mode without timers.
func Reset() {
	last = Epoch
	symbolic = false
	once, armed = false, false
	Log = nil
	timers = nil
	tickers = nil
	reads = 0
}

// SetSymbolic switches between symbolic and stepping mode.
func SetSymbolic(on bool) { symbolic = on; once = false }

// ArmOnce: the next reading is an arbitrary instant >= the previous one, the readings
// after it repeat that instant (time may stand still between two readings) until
// ArmOnce is called again.  One solver variable per armed reading.
func ArmOnce() { symbolic, once, armed = true, true, true }

// Advance moves the clock forward by d (d >= 0).
func Advance(d time.Duration) {
	if d > 0 {
		last += int64(d)
	}
}

// Last returns the most recent instant handed out.
func Last() time.Time { return mkTime(last) }

// LastNs returns the most recent instant in nanoseconds.
func LastNs() int64 { return last }

// Now replaces time.Now.
func Now() time.Time {
	reads++
	if symbolic && once && !armed {
		Log = append(Log, last)
		return mkTime(last)
	}
	armed = false
	if symbolic {
		t := vh.Int64("now")
		vh.Assume(t >= last)
		vh.Assume(t < Horizon)
		last = t
	} else {
		last += int64(time.Millisecond)
	}
	Log = append(Log, last)
	return mkTime(last)
}

// Since replaces time.Since.
func Since(t time.Time) time.Duration { return Now().Sub(t) }

// Until replaces time.Until.
func Until(t time.Time) time.Duration { return t.Sub(Now()) }

// Sleep replaces time.Sleep: the clock jumps.
func Sleep(d time.Duration) { Advance(d) }

// mkTime builds a time.Time for an instant.  The engine intercepts this function and
// builds {wall:0, ext:ns, loc:nil}; natively it is time.Unix(0, ns).
func mkTime(ns int64) time.Time { return time.Unix(0, ns) }

// At returns the time.Time of an instant (for harness oracles).
func At(ns int64) time.Time { return mkTime(ns) }

// Ns returns the instant of a time created by this package.  Intercepted by the engine.
func Ns(t time.Time) int64 {
	if t.IsZero() {
		return 0
	}
	return t.UnixNano()
}

// ---- timers ----

// Timer replaces *time.Timer for AfterFunc timers.
type Timer struct {
	f      func()
	D      time.Duration
	active bool
	SetAt  int64
	C      <-chan time.Time
}

// AfterFunc replaces time.AfterFunc: the callback is only registered.
func AfterFunc(d time.Duration, f func()) *Timer {
	t := &Timer{f: f, D: d, active: true, SetAt: last}
	timers = append(timers, t)
	return t
}

// NewTimer replaces time.NewTimer (channel timers are registered but never fire).
func NewTimer(d time.Duration) *Timer {
	t := &Timer{D: d, active: true, SetAt: last, C: make(chan time.Time, 1)}
	timers = append(timers, t)
	return t
}

// Stop deactivates the timer.
func (t *Timer) Stop() bool {
	was := t.active
	t.active = false
	return was
}

// Reset re-arms the timer.
func (t *Timer) Reset(d time.Duration) bool {
	was := t.active
	t.active = true
	t.D = d
	t.SetAt = last
	return was
}

// Active reports whether the timer is armed.
func (t *Timer) Active() bool { return t.active }

// Fire runs the callback of an armed timer now (a real timer runs it in its own
// goroutine; calling it from the harness top level, where no lock is held, is the
// same interleaving as that goroutine running to completion at this point).
func (t *Timer) Fire() {
	if t.active && t.f != nil {
		t.active = false
		t.f()
	}
}

// Func returns the callback (to start it in a goroutine of its own).
func (t *Timer) Func() func() {
	if t.active {
		t.active = false
		return t.f
	}
	return nil
}

// Timers returns all timers ever created (armed or not).
func Timers() []*Timer { return timers }

// Armed returns the armed timers.
func Armed() []*Timer {
	var out []*Timer
	for _, t := range timers {
		if t.active {
			out = append(out, t)
		}
	}
	return out
}

// FireAll fires every armed timer once, in creation order.
func FireAll() {
	for _, t := range append([]*Timer(nil), timers...) {
		t.Fire()
	}
}

// ---- tickers ----

// Ticker replaces *time.Ticker.
type Ticker struct {
	C       <-chan time.Time
	c       chan time.Time
	D       time.Duration
	stopped bool
}

// NewTicker replaces time.NewTicker; ticks are produced by Tick.
func NewTicker(d time.Duration) *Ticker {
	c := make(chan time.Time, 1)
	t := &Ticker{C: c, c: c, D: d}
	tickers = append(tickers, t)
	return t
}

// Stop stops the ticker.
func (t *Ticker) Stop() { t.stopped = true }

// Stopped reports whether Stop was called (and no Reset since).
func (t *Ticker) Stopped() bool { return t.stopped }

// Reset changes the period.
func (t *Ticker) Reset(d time.Duration) { t.D = d; t.stopped = false }

// Tick delivers one tick (dropped if the previous one was not consumed, like a real ticker).
func (t *Ticker) Tick() {
	if t.stopped {
		return
	}
	select {
	case t.c <- Now():
	default:
	}
}

// Tickers returns all tickers created.
func Tickers() []*Ticker { return tickers }
