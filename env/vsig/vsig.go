// Package vsig replaces os/signal inside cmd/olareg/serve.go (source redirection): the
// harness, not the kernel, delivers signals.  Notify has the contract of signal.Notify:
// a delivery never blocks (a signal is dropped when the channel is full), and a channel
// receives only the signals it was registered for (all signals when none is named).
package vsig

import (
	"os"
	"syscall"
)

// Interrupt stands in for os.Interrupt (package os is not initialised in the engine).
var Interrupt os.Signal = syscall.SIGINT

type reg struct {
	c    chan<- os.Signal
	sigs []os.Signal
}

var regs []reg

// Reset forgets every registration.
func Reset() { regs = nil }

// Notify registers c for the given signals.
func Notify(c chan<- os.Signal, sig ...os.Signal) {
	regs = append(regs, reg{c: c, sigs: append([]os.Signal(nil), sig...)})
}

// Stop removes the registrations of c.
func Stop(c chan<- os.Signal) {
	out := regs[:0]
	for _, r := range regs {
		if r.c != c {
			out = append(out, r)
		}
	}
	regs = out
}

// Registered returns the number of channels that would receive sig.
func Registered(sig os.Signal) int {
	n := 0
	for _, r := range regs {
		if r.wants(sig) {
			n++
		}
	}
	return n
}

func (r reg) wants(sig os.Signal) bool {
	if len(r.sigs) == 0 {
		return true
	}
	for _, s := range r.sigs {
		if s == sig {
			return true
		}
	}
	return false
}

// Deliver sends sig to every channel registered for it, without blocking.
func Deliver(sig os.Signal) int {
	n := 0
	for _, r := range regs {
		if !r.wants(sig) {
			continue
		}
		select {
		case r.c <- sig:
			n++
		default:
		}
	}
	return n
}
