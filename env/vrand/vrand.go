// Package vrand replaces crypto/rand in olareg's store: deterministic, never repeating.
package vrand

var counter uint64

// Reset restarts the sequence.
func Reset() { counter = 0 }

// Read fills b with bytes derived from a counter (unique per call).
func Read(b []byte) (int, error) {
	counter++
	c := counter
	for i := range b {
		b[i] = byte(c >> (8 * (uint(i) % 8)))
		if i%8 == 7 {
			c = c*6364136223846793005 + 1442695040888963407
		}
	}
	return len(b), nil
}
