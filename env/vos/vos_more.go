package vos

// The rest of the commonly used subset of package os, so that a change to olareg that
// starts using another os function is still executed against the model instead of
// failing to load.  Same conventions as vos.go: mutating primitives are numbered by
// State.mut (crash points, mutation counter), accesses are checked against the allowed
// prefixes, after a crash every primitive fails without effect.

import (
	"errors"
	"io"
	"io/fs"
	"path/filepath"
	"strings"
	"time"

	"github.com/olareg/olareg/internal/verifenv/vclock"
)

type (
	FileInfo  = fs.FileInfo
	FileMode  = fs.FileMode
	DirEntry  = fs.DirEntry
	PathError = fs.PathError
)

const (
	O_RDONLY = 0x0
	O_WRONLY = 0x1
	O_RDWR   = 0x2
	O_APPEND = 0x400
	O_CREATE = 0x40
	O_EXCL   = 0x80
	O_SYNC   = 0x101000
	O_TRUNC  = 0x200

	ModePerm      = fs.ModePerm
	ModeDir       = fs.ModeDir
	PathSeparator = '/'
	DevNull       = "/dev/null"
)

var (
	ErrPermission = fs.ErrPermission
	ErrDeadline   = errors.New("i/o timeout")
)

func IsExist(err error) bool      { return errors.Is(err, fs.ErrExist) || errors.Is(err, ErrNotEmpty) }
func IsPermission(err error) bool { return errors.Is(err, fs.ErrPermission) }
func TempDir() string             { return "/tmp" }
func Getenv(string) string        { return "" }
func LookupEnv(string) (string, bool) { return "", false }
func Getpid() int                 { return 4711 }
func Getwd() (string, error)      { return "/cwd", nil }
func Hostname() (string, error)   { return "vos", nil }
func SameFile(a, b fs.FileInfo) bool {
	x, ok1 := a.(fileInfo)
	y, ok2 := b.(fileInfo)
	return ok1 && ok2 && x == y
}

func Lstat(name string) (fs.FileInfo, error) { return Stat(name) }

// Mkdir creates one directory; the parent must exist.
func Mkdir(name string, perm fs.FileMode) error {
	p := abs(name)
	if S.Crashed {
		return pathErr("mkdir", p, ErrCrashed)
	}
	S.access(p)
	if _, ok := S.nodes[p]; ok {
		return pathErr("mkdir", p, ErrExist)
	}
	if err := S.parentDir("mkdir", p); err != nil {
		return err
	}
	if S.failOp == "mkdir" {
		S.failOp = ""
		return pathErr("mkdir", p, ErrInjected)
	}
	if ok, _ := S.mut("mkdir", p); !ok {
		return pathErr("mkdir", p, ErrCrashed)
	}
	S.nodes[p] = &node{dir: true, mtime: vclock.Now()}
	return nil
}

// RemoveAll removes path and everything below it, one primitive per entry (deepest
// first), so that a crash in the middle leaves a partially removed tree.
func RemoveAll(name string) error {
	p := abs(name)
	if S.Crashed {
		return pathErr("unlinkat", p, ErrCrashed)
	}
	S.access(p)
	if _, ok := S.nodes[p]; !ok {
		return nil
	}
	if p == "/" {
		return pathErr("unlinkat", p, errors.New("invalid argument"))
	}
	ps := S.paths()
	for k := len(ps) - 1; k >= 0; k-- {
		q := ps[k]
		if q == p || strings.HasPrefix(q, p+"/") {
			if ok, _ := S.mut("remove", q); !ok {
				return pathErr("unlinkat", q, ErrCrashed)
			}
			delete(S.nodes, q)
		}
	}
	return nil
}

// Chtimes sets the modification time.
func Chtimes(name string, atime, mtime time.Time) error {
	p := abs(name)
	n, err := S.lookup("chtimes", p)
	if err != nil {
		return err
	}
	if ok, _ := S.mut("chtimes", p); !ok {
		return pathErr("chtimes", p, ErrCrashed)
	}
	if !mtime.IsZero() {
		n.mtime = mtime
	}
	return nil
}

// Chmod is a metadata change the model does not represent (it still counts as a
// mutation of the directory tree).
func Chmod(name string, mode fs.FileMode) error {
	p := abs(name)
	if _, err := S.lookup("chmod", p); err != nil {
		return err
	}
	if ok, _ := S.mut("chmod", p); !ok {
		return pathErr("chmod", p, ErrCrashed)
	}
	return nil
}

// Truncate changes the size of a file.
func Truncate(name string, size int64) error {
	p := abs(name)
	n, err := S.lookup("truncate", p)
	if err != nil {
		return err
	}
	if n.dir {
		return pathErr("truncate", p, ErrIsDir)
	}
	if size < 0 {
		return pathErr("truncate", p, errors.New("invalid argument"))
	}
	if ok, _ := S.mut("truncate", p); !ok {
		return pathErr("truncate", p, ErrCrashed)
	}
	n.resize(size)
	n.mtime = vclock.Now()
	return nil
}

func (n *node) resize(size int64) {
	for int64(len(n.data)) < size {
		n.data = append(n.data, 0)
	}
	n.data = n.data[:size]
}

// Create creates or truncates a file for writing.
func Create(name string) (*File, error) {
	return OpenFile(name, O_RDWR|O_CREATE|O_TRUNC, 0666)
}

// OpenFile is the general open call.
func OpenFile(name string, flag int, perm fs.FileMode) (*File, error) {
	p := abs(name)
	if S.Crashed {
		return nil, pathErr("open", p, ErrCrashed)
	}
	if S.failOp == "open" {
		S.failOp = ""
		return nil, pathErr("open", p, ErrInjected)
	}
	S.access(p)
	writable := flag&(O_WRONLY|O_RDWR) != 0
	n, exists := S.nodes[p]
	if exists && flag&O_CREATE != 0 && flag&O_EXCL != 0 {
		return nil, pathErr("open", p, ErrExist)
	}
	if !exists {
		if flag&O_CREATE == 0 {
			_, err := S.lookup("open", p)
			return nil, err
		}
		if err := S.parentDir("open", p); err != nil {
			return nil, err
		}
		if ok, _ := S.mut("create", p); !ok {
			return nil, pathErr("open", p, ErrCrashed)
		}
		n = &node{mtime: vclock.Now()}
		S.nodes[p] = n
	} else {
		if n.dir && writable {
			return nil, pathErr("open", p, ErrIsDir)
		}
		if flag&O_TRUNC != 0 && writable && len(n.data) > 0 {
			if ok, _ := S.mut("truncate", p); !ok {
				return nil, pathErr("open", p, ErrCrashed)
			}
			n.data = nil
			n.mtime = vclock.Now()
		}
	}
	return &File{name: name, path: p, n: n, writable: writable, app: flag&O_APPEND != 0}, nil
}

// ---- more *File methods ----

func (f *File) WriteString(s string) (int, error) { return f.Write([]byte(s)) }

func (f *File) Sync() error {
	if f == nil {
		return ErrInvalid
	}
	if f.closed {
		return pathErr("sync", f.name, ErrClosed)
	}
	if S.Crashed {
		return pathErr("sync", f.name, ErrCrashed)
	}
	return nil
}

func (f *File) Truncate(size int64) error {
	if f == nil {
		return ErrInvalid
	}
	if f.closed {
		return pathErr("truncate", f.name, ErrClosed)
	}
	if !f.writable {
		return pathErr("truncate", f.name, errors.New("invalid argument"))
	}
	if ok, _ := S.mut("truncate", f.path); !ok {
		return pathErr("truncate", f.name, ErrCrashed)
	}
	f.n.resize(size)
	f.n.mtime = vclock.Now()
	return nil
}

func (f *File) Chmod(mode fs.FileMode) error {
	if f == nil {
		return ErrInvalid
	}
	if ok, _ := S.mut("chmod", f.path); !ok {
		return pathErr("chmod", f.name, ErrCrashed)
	}
	return nil
}

func (f *File) ReadAt(b []byte, off int64) (int, error) {
	if f == nil {
		return 0, ErrInvalid
	}
	if f.closed {
		return 0, pathErr("read", f.name, ErrClosed)
	}
	if S.Crashed {
		return 0, pathErr("read", f.name, ErrCrashed)
	}
	if off < 0 {
		return 0, pathErr("readat", f.name, errors.New("negative offset"))
	}
	if off >= int64(len(f.n.data)) {
		return 0, io.EOF
	}
	n := copy(b, f.n.data[off:])
	if n < len(b) {
		return n, io.EOF
	}
	return n, nil
}

func (f *File) WriteAt(b []byte, off int64) (int, error) {
	if f == nil {
		return 0, ErrInvalid
	}
	if off < 0 {
		return 0, pathErr("writeat", f.name, errors.New("negative offset"))
	}
	save := f.off
	f.off = off
	f.seekSet = true
	n, err := f.Write(b)
	f.off = save
	f.seekSet = false
	return n, err
}

func (f *File) ReadDir(n int) ([]fs.DirEntry, error) {
	if f == nil {
		return nil, ErrInvalid
	}
	return ReadDir(f.path)
}

func (f *File) Readdirnames(n int) ([]string, error) {
	es, err := f.ReadDir(n)
	var out []string
	for _, e := range es {
		out = append(out, e.Name())
	}
	return out, err
}

var _ = filepath.Join
