// Package vos is the model file system that replaces package os inside olareg's store
// (internal/store/dir.go, mem.go) for symbolic execution and for native replay.
//
// State: cleaned absolute path -> node (directory, or file bytes + mtime).  Handles keep
// the node (inode semantics: rename/remove do not invalidate an open handle).  Every
// mutating primitive is numbered; CrashAt(k, tear) stops the "process" before
// primitive k (for writes: after a prefix of tear bytes).  After a crash every call
// fails without effect, so deferred clean-up code of the dying process changes nothing.
// Not modelled: permissions, links, fsync, ENOSPC, concurrent external writers.
package vos

import (
	"errors"
	"io"
	"io/fs"
	"path/filepath"
	"sort"
	"strconv"
	"strings"
	"time"

	"github.com/olareg/olareg/internal/verifenv/vclock"
)

var (
	ErrNotExist = fs.ErrNotExist
	ErrExist    = fs.ErrExist
	ErrNotEmpty = errors.New("directory not empty")
	ErrNotDir   = errors.New("not a directory")
	ErrIsDir    = errors.New("is a directory")
	ErrClosed   = errors.New("file already closed")
	ErrCrashed  = errors.New("process crashed (vos)")
	ErrInjected = errors.New("injected I/O error (vos)")
)

// Crash was the panic value of earlier versions; crashes are now fail-stop (see mut).
type Crash struct{ At int }

type node struct {
	dir   bool
	data  []byte
	mtime time.Time
}

// State of the model file system.
type State struct {
	nodes   map[string]*node
	Ops     int      // number of mutating primitives executed
	Log     []string // their description
	crashAt int
	tear    int
	Crashed bool
	tmpSeq  int
	allowed []string
	Escapes []string // accesses outside the allowed prefixes
	failOp  string   // inject an error into the next primitive with this name
}

// S is the current file system.
var S *State

func init() { Reset() }

// Reset installs an empty file system (root directory only).
func Reset() {
	S = &State{nodes: map[string]*node{"/": {dir: true}}, crashAt: -1}
}

// Clone returns a deep copy of the current state (used to compare outcomes).
func Clone() *State {
	c := &State{nodes: map[string]*node{}, Ops: S.Ops, crashAt: -1, tmpSeq: S.tmpSeq}
	for _, p := range S.paths() {
		n := S.nodes[p]
		c.nodes[p] = &node{dir: n.dir, data: append([]byte(nil), n.data...), mtime: n.mtime}
	}
	return c
}

// Use installs a previously cloned state.
func Use(s *State) { S = s }

// CrashAt arms a crash before mutating primitive number k (0-based, counted from now);
// for a write primitive the first tear bytes are still applied (tear<0: none).
func CrashAt(k, tear int) {
	S.crashAt = S.Ops + k
	S.tear = tear
}

// Disarm removes a pending crash point and clears the crashed flag (restart).
func Disarm() {
	S.crashAt = -1
	S.Crashed = false
}

// FailNext makes the next primitive named op fail with an injected error.
func FailNext(op string) { S.failOp = op }

// SetAllowed restricts accesses to the given path prefixes; others are recorded.
func SetAllowed(prefixes ...string) { S.allowed = prefixes }

// Mutations returns the number of mutating primitives executed so far.
func Mutations() int { return S.Ops }

func abs(p string) string {
	if !strings.HasPrefix(p, "/") {
		p = "/cwd/" + p
	}
	return filepath.Clean(p)
}

func (s *State) paths() []string {
	ps := make([]string, 0, len(s.nodes))
	for p := range s.nodes {
		ps = append(ps, p)
	}
	sort.Strings(ps)
	return ps
}

func (s *State) access(p string) {
	if len(s.allowed) == 0 {
		return
	}
	for _, a := range s.allowed {
		if p == a || strings.HasPrefix(p, a+"/") || strings.HasPrefix(a, p+"/") || p == "/" {
			return
		}
	}
	s.Escapes = append(s.Escapes, p)
}

// mut numbers a mutating primitive; it returns false if the primitive must not happen.
// partial reports a torn write: only S.tear bytes are to be applied, then crash.
func (s *State) mut(op, p string) (ok bool, partial bool) {
	if s.Crashed {
		return false, false
	}
	if s.crashAt >= 0 && s.Ops == s.crashAt {
		if (op == "write" || op == "writefile") && s.tear >= 0 {
			return true, true
		}
		// the process "dies" here: from now on every primitive fails without effect, so
		// the durable state is exactly the state at this point (no panic: a panic would
		// run deferred code of the dying process, which a real crash never does)
		s.Crashed = true
		return false, false
	}
	s.Ops++
	s.Log = append(s.Log, op+" "+p)
	return true, false
}

func (s *State) crashNow() {
	s.Crashed = true
}

func pathErr(op, p string, err error) error { return &fs.PathError{Op: op, Path: p, Err: err} }

// lookup returns the node at p, checking that every parent is a directory.
func (s *State) lookup(op, p string) (*node, error) {
	if s.Crashed {
		return nil, pathErr(op, p, ErrCrashed)
	}
	if s.failOp == op {
		s.failOp = ""
		return nil, pathErr(op, p, ErrInjected)
	}
	s.access(p)
	n, ok := s.nodes[p]
	if !ok {
		// a parent that is a file gives ENOTDIR
		for d := filepath.Dir(p); d != "/" && d != "."; d = filepath.Dir(d) {
			if pn, ok := s.nodes[d]; ok {
				if !pn.dir {
					return nil, pathErr(op, p, ErrNotDir)
				}
				break
			}
		}
		return nil, pathErr(op, p, ErrNotExist)
	}
	return n, nil
}

func (s *State) parentDir(op, p string) error {
	d := filepath.Dir(p)
	pn, ok := s.nodes[d]
	if !ok {
		return pathErr(op, p, ErrNotExist)
	}
	if !pn.dir {
		return pathErr(op, p, ErrNotDir)
	}
	return nil
}

// ---- file info ----

type fileInfo struct {
	name  string
	size  int64
	dir   bool
	mtime time.Time
}

func (fi fileInfo) Name() string { return fi.name }
func (fi fileInfo) Size() int64  { return fi.size }
func (fi fileInfo) Mode() fs.FileMode {
	if fi.dir {
		return fs.ModeDir | 0755
	}
	return 0644
}
func (fi fileInfo) ModTime() time.Time         { return fi.mtime }
func (fi fileInfo) IsDir() bool                { return fi.dir }
func (fi fileInfo) Sys() any                   { return nil }
func (fi fileInfo) Type() fs.FileMode          { return fi.Mode() & fs.ModeType }
func (fi fileInfo) Info() (fs.FileInfo, error) { return fi, nil }

func infoOf(p string, n *node) fileInfo {
	return fileInfo{name: filepath.Base(p), size: int64(len(n.data)), dir: n.dir, mtime: n.mtime}
}

// ---- package-level API (subset of os used by olareg) ----

func IsNotExist(err error) bool { return errors.Is(err, fs.ErrNotExist) }

func Stat(name string) (fs.FileInfo, error) {
	p := abs(name)
	n, err := S.lookup("stat", p)
	if err != nil {
		return nil, err
	}
	return infoOf(p, n), nil
}

func ReadFile(name string) ([]byte, error) {
	p := abs(name)
	n, err := S.lookup("open", p)
	if err != nil {
		return nil, err
	}
	if n.dir {
		return nil, pathErr("read", p, ErrIsDir)
	}
	return append([]byte{}, n.data...), nil
}

func Open(name string) (*File, error) {
	p := abs(name)
	n, err := S.lookup("open", p)
	if err != nil {
		return nil, err
	}
	return &File{name: name, path: p, n: n}, nil
}

func MkdirAll(name string, perm fs.FileMode) error {
	p := abs(name)
	if S.Crashed {
		return pathErr("mkdir", p, ErrCrashed)
	}
	S.access(p)
	// create each missing component, outermost first
	var missing []string
	for d := p; d != "/"; d = filepath.Dir(d) {
		if n, ok := S.nodes[d]; ok {
			if !n.dir {
				return pathErr("mkdir", d, ErrNotDir)
			}
			break
		}
		missing = append(missing, d)
	}
	for k := len(missing) - 1; k >= 0; k-- {
		if ok, _ := S.mut("mkdir", missing[k]); !ok {
			return pathErr("mkdir", missing[k], ErrCrashed)
		}
		S.nodes[missing[k]] = &node{dir: true, mtime: vclock.Now()}
	}
	return nil
}

func WriteFile(name string, data []byte, perm fs.FileMode) error {
	p := abs(name)
	if S.Crashed {
		return pathErr("open", p, ErrCrashed)
	}
	S.access(p)
	if err := S.parentDir("open", p); err != nil {
		return err
	}
	if n, ok := S.nodes[p]; ok && n.dir {
		return pathErr("open", p, ErrIsDir)
	}
	ok, partial := S.mut("writefile", p)
	if !ok {
		return pathErr("write", p, ErrCrashed)
	}
	if partial {
		k := S.tear
		if k > len(data) {
			k = len(data)
		}
		S.nodes[p] = &node{data: append([]byte{}, data[:k]...), mtime: vclock.Now()}
		S.crashNow()
		return pathErr("write", p, ErrCrashed)
	}
	S.nodes[p] = &node{data: append([]byte{}, data...), mtime: vclock.Now()}
	return nil
}

func CreateTemp(dir, pattern string) (*File, error) {
	d := abs(dir)
	if S.Crashed {
		return nil, pathErr("open", d, ErrCrashed)
	}
	S.access(d)
	dn, ok := S.nodes[d]
	if !ok {
		return nil, pathErr("open", d, ErrNotExist)
	}
	if !dn.dir {
		return nil, pathErr("open", d, ErrNotDir)
	}
	if S.failOp == "createtemp" {
		S.failOp = ""
		return nil, pathErr("open", d, ErrInjected)
	}
	S.tmpSeq++
	suffix := strconv.Itoa(S.tmpSeq)
	var base string
	if k := strings.LastIndex(pattern, "*"); k >= 0 {
		base = pattern[:k] + suffix + pattern[k+1:]
	} else {
		base = pattern + suffix
	}
	p := filepath.Join(d, base)
	if ok, _ := S.mut("create", p); !ok {
		return nil, pathErr("open", p, ErrCrashed)
	}
	n := &node{mtime: vclock.Now()}
	S.nodes[p] = n
	return &File{name: filepath.Join(dir, base), path: p, n: n, writable: true}, nil
}

func Rename(oldname, newname string) error {
	op, np := abs(oldname), abs(newname)
	if S.Crashed {
		return &linkErr{"rename", op, np, ErrCrashed}
	}
	S.access(op)
	S.access(np)
	n, ok := S.nodes[op]
	if !ok {
		return &linkErr{"rename", op, np, ErrNotExist}
	}
	if err := S.parentDir("rename", np); err != nil {
		return &linkErr{"rename", op, np, ErrNotExist}
	}
	if t, ok := S.nodes[np]; ok {
		if t.dir != n.dir {
			if t.dir {
				return &linkErr{"rename", op, np, ErrIsDir}
			}
			return &linkErr{"rename", op, np, ErrNotDir}
		}
		if t.dir && S.hasChildren(np) {
			return &linkErr{"rename", op, np, ErrNotEmpty}
		}
	}
	if S.failOp == "rename" {
		S.failOp = ""
		return &linkErr{"rename", op, np, ErrInjected}
	}
	if ok, _ := S.mut("rename", op+" -> "+np); !ok {
		return &linkErr{"rename", op, np, ErrCrashed}
	}
	if n.dir {
		// move the subtree
		for _, p := range S.paths() {
			if strings.HasPrefix(p, op+"/") {
				S.nodes[np+p[len(op):]] = S.nodes[p]
				delete(S.nodes, p)
			}
		}
	}
	S.nodes[np] = n
	delete(S.nodes, op)
	return nil
}

type linkErr struct {
	Op, Old, New string
	Err          error
}

func (e *linkErr) Error() string { return e.Op + " " + e.Old + " " + e.New + ": " + e.Err.Error() }
func (e *linkErr) Unwrap() error { return e.Err }

func (s *State) hasChildren(p string) bool {
	for q := range s.nodes {
		if strings.HasPrefix(q, p+"/") {
			return true
		}
	}
	return false
}

func Remove(name string) error {
	p := abs(name)
	n, err := S.lookup("remove", p)
	if err != nil {
		return err
	}
	if p == "/" {
		return pathErr("remove", p, ErrNotEmpty)
	}
	if n.dir && S.hasChildren(p) {
		return pathErr("remove", p, ErrNotEmpty)
	}
	if ok, _ := S.mut("remove", p); !ok {
		return pathErr("remove", p, ErrCrashed)
	}
	delete(S.nodes, p)
	return nil
}

func ReadDir(name string) ([]fs.DirEntry, error) {
	p := abs(name)
	n, err := S.lookup("open", p)
	if err != nil {
		return nil, err
	}
	if !n.dir {
		return nil, pathErr("readdir", p, ErrNotDir)
	}
	var out []fs.DirEntry
	prefix := p + "/"
	if p == "/" {
		prefix = "/"
	}
	for _, q := range S.paths() {
		if q != p && strings.HasPrefix(q, prefix) && !strings.Contains(q[len(prefix):], "/") {
			out = append(out, infoOf(q, S.nodes[q]))
		}
	}
	return out, nil
}

// ---- File ----

// File replaces *os.File.
type File struct {
	name     string
	path     string
	n        *node
	off      int64
	closed   bool
	writable bool
	app      bool // O_APPEND: every write goes to the end
	seekSet  bool // WriteAt in progress: keep the explicit offset
}

// ErrInvalid is what *os.File methods return on a nil receiver.
var ErrInvalid = fs.ErrInvalid

func (f *File) Name() string {
	if f == nil {
		panic("invalid memory address or nil pointer dereference") // as (*os.File)(nil).Name()
	}
	return f.name
}

func (f *File) Close() error {
	if f == nil {
		return ErrInvalid
	}
	if f.closed {
		return pathErr("close", f.name, ErrClosed)
	}
	f.closed = true
	return nil
}

func (f *File) Stat() (fs.FileInfo, error) {
	if f == nil {
		return nil, ErrInvalid
	}
	if f.closed {
		return nil, pathErr("stat", f.name, ErrClosed)
	}
	if S.Crashed {
		return nil, pathErr("stat", f.name, ErrCrashed)
	}
	return infoOf(f.path, f.n), nil
}

func (f *File) Write(b []byte) (int, error) {
	if f == nil {
		return 0, ErrInvalid
	}
	if f.closed {
		return 0, pathErr("write", f.name, ErrClosed)
	}
	if !f.writable {
		return 0, pathErr("write", f.name, errors.New("bad file descriptor"))
	}
	if S.failOp == "write" {
		S.failOp = ""
		return 0, pathErr("write", f.name, ErrInjected)
	}
	ok, partial := S.mut("write", f.path)
	if !ok {
		return 0, pathErr("write", f.name, ErrCrashed)
	}
	if partial {
		k := S.tear
		if k > len(b) {
			k = len(b)
		}
		f.put(b[:k])
		S.crashNow()
		return k, pathErr("write", f.name, ErrCrashed)
	}
	f.put(b)
	return len(b), nil
}

func (f *File) put(b []byte) {
	if f.app && !f.seekSet {
		f.off = int64(len(f.n.data))
	}
	end := f.off + int64(len(b))
	for int64(len(f.n.data)) < end {
		f.n.data = append(f.n.data, 0)
	}
	copy(f.n.data[f.off:], b)
	f.off = end
	f.n.mtime = vclock.Now()
}

func (f *File) Read(b []byte) (int, error) {
	if f == nil {
		return 0, ErrInvalid
	}
	if f.closed {
		return 0, pathErr("read", f.name, ErrClosed)
	}
	if S.Crashed {
		return 0, pathErr("read", f.name, ErrCrashed)
	}
	if f.n.dir {
		return 0, pathErr("read", f.name, ErrIsDir)
	}
	if f.off >= int64(len(f.n.data)) {
		if len(b) == 0 {
			return 0, nil
		}
		return 0, io.EOF
	}
	n := copy(b, f.n.data[f.off:])
	f.off += int64(n)
	return n, nil
}

func (f *File) Seek(offset int64, whence int) (int64, error) {
	if f == nil {
		return 0, ErrInvalid
	}
	if f.closed {
		return 0, pathErr("seek", f.name, ErrClosed)
	}
	var base int64
	switch whence {
	case io.SeekStart:
	case io.SeekCurrent:
		base = f.off
	case io.SeekEnd:
		base = int64(len(f.n.data))
	default:
		return 0, pathErr("seek", f.name, errors.New("invalid argument"))
	}
	if base+offset < 0 {
		return 0, pathErr("seek", f.name, errors.New("invalid argument"))
	}
	f.off = base + offset
	return f.off, nil
}

// ---- helpers for harnesses (never called by olareg) ----

// Exists reports whether path exists.
func Exists(name string) bool { _, ok := S.nodes[abs(name)]; return ok }

// IsDirPath reports whether path is a directory.
func IsDirPath(name string) bool { n, ok := S.nodes[abs(name)]; return ok && n.dir }

// Bytes returns the content of a file (nil if absent or a directory).
func Bytes(name string) []byte {
	n, ok := S.nodes[abs(name)]
	if !ok || n.dir {
		return nil
	}
	return n.data
}

// Put creates a file (and its parents) without counting as a store mutation.
func Put(name string, data []byte, mtime time.Time) {
	p := abs(name)
	for d := filepath.Dir(p); d != "/"; d = filepath.Dir(d) {
		if _, ok := S.nodes[d]; !ok {
			S.nodes[d] = &node{dir: true, mtime: mtime}
		}
	}
	S.nodes[p] = &node{data: append([]byte{}, data...), mtime: mtime}
}

// PutDir creates a directory (and parents) without counting as a store mutation.
func PutDir(name string, mtime time.Time) {
	p := abs(name)
	for d := p; d != "/"; d = filepath.Dir(d) {
		if _, ok := S.nodes[d]; !ok {
			S.nodes[d] = &node{dir: true, mtime: mtime}
		}
	}
}

// Delete removes a path and everything below it without counting.
func Delete(name string) {
	p := abs(name)
	for _, q := range S.paths() {
		if q == p || strings.HasPrefix(q, p+"/") {
			delete(S.nodes, q)
		}
	}
}

// SetMtime changes the modification time of a path.
func SetMtime(name string, t time.Time) {
	if n, ok := S.nodes[abs(name)]; ok {
		n.mtime = t
	}
}

// List returns all paths below prefix (sorted), directories with a trailing slash.
func List(prefix string) []string {
	p := abs(prefix)
	var out []string
	for _, q := range S.paths() {
		if q == p || strings.HasPrefix(q, p+"/") || p == "/" {
			if S.nodes[q].dir {
				out = append(out, q+"/")
			} else {
				out = append(out, q)
			}
		}
	}
	return out
}

// Snapshot renders the whole tree below prefix (names, sizes, contents) as a string.
func Snapshot(prefix string) string {
	p := abs(prefix)
	var sb strings.Builder
	for _, q := range S.paths() {
		if q == p || strings.HasPrefix(q, p+"/") || p == "/" {
			n := S.nodes[q]
			if n.dir {
				sb.WriteString(q + "/\n")
			} else {
				sb.WriteString(q + " " + strconv.Itoa(len(n.data)) + " " + string(n.data) + "\n")
			}
		}
	}
	return sb.String()
}

// Dump serialises the whole tree (for vh.Memo: a concrete prefix is executed once per
// worker and its result restored on the following paths).
func Dump() string {
	var sb strings.Builder
	for _, q := range S.paths() {
		n := S.nodes[q]
		kind := "F"
		if n.dir {
			kind = "D"
		}
		sb.WriteString(kind + " " + strconv.FormatInt(vclock.Ns(n.mtime), 10) + " " + strconv.Itoa(len(n.data)) + " " + q + "\n")
		sb.Write(n.data)
		sb.WriteString("\n")
	}
	sb.WriteString("T " + strconv.Itoa(S.tmpSeq) + "\n")
	return sb.String()
}

// Restore replaces the tree by a dumped one (mutation counters restart at zero).
func Restore(d string) {
	Reset()
	for len(d) > 0 {
		nl := strings.Index(d, "\n")
		head := d[:nl]
		d = d[nl+1:]
		if strings.HasPrefix(head, "T ") {
			S.tmpSeq, _ = strconv.Atoi(head[2:])
			continue
		}
		f := strings.SplitN(head, " ", 4)
		ns, _ := strconv.ParseInt(f[1], 10, 64)
		ln, _ := strconv.Atoi(f[2])
		data := d[:ln]
		d = d[ln+1:]
		S.nodes[f[3]] = &node{dir: f[0] == "D", data: []byte(data), mtime: vclock.At(ns)}
	}
}
