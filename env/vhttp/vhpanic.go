package vhttp

import "github.com/olareg/olareg/internal/verifenv/vh"

// isVhPanic: control-flow panics of the harness API must pass through recover blocks.
func isVhPanic(r any) bool {
	switch r.(type) {
	case vh.StopReplay, vh.AssumeFailed:
		return true
	}
	return false
}
