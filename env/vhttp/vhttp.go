// Package vhttp holds the HTTP-side environment of harnesses: a response recorder, a
// request builder and the stand-in for http.ServeContent.
package vhttp

import (
	"context"
	"io"
	"net/http"
	"net/url"
	"strconv"
	"time"
)

// Recorder is an http.ResponseWriter that records the response.
type Recorder struct {
	Code        int
	HeaderMap   http.Header
	Body        []byte
	WroteHeader bool
	Writes      int
	Panicked    bool
	PanicVal    string
}

// NewRecorder returns an empty recorder.
func NewRecorder() *Recorder { return &Recorder{HeaderMap: http.Header{}} }

// Header implements http.ResponseWriter.
func (r *Recorder) Header() http.Header { return r.HeaderMap }

// WriteHeader implements http.ResponseWriter (first call wins, as in net/http).
func (r *Recorder) WriteHeader(code int) {
	if r.WroteHeader {
		return
	}
	r.WroteHeader = true
	r.Code = code
}

// Write implements http.ResponseWriter.
func (r *Recorder) Write(b []byte) (int, error) {
	if !r.WroteHeader {
		r.WriteHeader(http.StatusOK)
	}
	r.Writes++
	r.Body = append(r.Body, b...)
	return len(b), nil
}

// Status returns the status code a client would see.
func (r *Recorder) Status() int {
	if !r.WroteHeader {
		return http.StatusOK
	}
	return r.Code
}

// Body is a request body: content delivered in reads of at most Chunk bytes.
type Body struct {
	Data   []byte
	off    int
	Chunk  int
	Closed bool
}

// Read implements io.Reader.
func (b *Body) Read(p []byte) (int, error) {
	if b.off >= len(b.Data) {
		return 0, io.EOF
	}
	n := len(p)
	if b.Chunk > 0 && n > b.Chunk {
		n = b.Chunk
	}
	n = copy(p[:n], b.Data[b.off:])
	b.off += n
	return n, nil
}

// Close implements io.Closer.
func (b *Body) Close() error { b.Closed = true; return nil }

// Request builds a server-side *http.Request.  contentLength is what the client
// declared (-1 = unknown), independent of the real body length.
func Request(method, path string, query url.Values, header http.Header, body []byte, contentLength int64) *http.Request {
	if header == nil {
		header = http.Header{}
	}
	if query == nil {
		query = url.Values{}
	}
	return &http.Request{
		Method:        method,
		URL:           &url.URL{Path: path, RawQuery: query.Encode()},
		Proto:         "HTTP/1.1",
		ProtoMajor:    1,
		ProtoMinor:    1,
		Header:        header,
		Body:          &Body{Data: body},
		ContentLength: contentLength,
		Host:          "registry.test",
		RemoteAddr:    "192.0.2.1:1234",
	}
}

// Serve runs the handler, recovering a panic into the recorder.
func Serve(h http.Handler, req *http.Request) *Recorder {
	rec := NewRecorder()
	func() {
		defer func() {
			if r := recover(); r != nil {
				if IsEnginePanic(r) {
					panic(r)
				}
				rec.Panicked = true
				rec.PanicVal = describe(r)
			}
		}()
		h.ServeHTTP(rec, req)
	}()
	return rec
}

// IsEnginePanic reports panics that are harness control flow, not handler panics.
func IsEnginePanic(r any) bool {
	switch r.(type) {
	case interface{ vhControl() }:
		return true
	}
	return isVhPanic(r)
}

func describe(r any) string {
	switch x := r.(type) {
	case error:
		return x.Error()
	case string:
		return x
	}
	return "panic"
}

// ServeContent stands in for http.ServeContent: it determines the size by seeking,
// sets Content-Length, answers 200 and copies the content unless the method is HEAD.
// Range and conditional requests are not modelled (outside the claims).
func ServeContent(w http.ResponseWriter, req *http.Request, name string, modtime time.Time, content io.ReadSeeker) {
	size, err := content.Seek(0, io.SeekEnd)
	if err != nil {
		w.WriteHeader(http.StatusInternalServerError)
		return
	}
	if _, err = content.Seek(0, io.SeekStart); err != nil {
		w.WriteHeader(http.StatusInternalServerError)
		return
	}
	w.Header().Set("Content-Length", strconv.FormatInt(size, 10))
	w.WriteHeader(http.StatusOK)
	if req.Method != http.MethodHead {
		buf := make([]byte, 64)
		for {
			n, rerr := content.Read(buf)
			if n > 0 {
				if _, werr := w.Write(buf[:n]); werr != nil {
					return
				}
			}
			if rerr != nil {
				return
			}
		}
	}
}

// Ctx is a cancellable context without goroutines or atomics.
type Ctx struct {
	done chan struct{}
	err  error
}

// NewCtx returns a live context.
func NewCtx() *Ctx { return &Ctx{done: make(chan struct{})} }

// Cancel cancels the context.
func (c *Ctx) Cancel() {
	if c.err == nil {
		c.err = context.Canceled
		close(c.done)
	}
}

func (c *Ctx) Deadline() (time.Time, bool) { return time.Time{}, false }
func (c *Ctx) Done() <-chan struct{}       { return c.done }
func (c *Ctx) Err() error                  { return c.err }
func (c *Ctx) Value(key any) any           { return nil }
