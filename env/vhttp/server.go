package vhttp

// Server stands in for net/http.Server inside olareg.go (source redirection of the
// selector http.Server): no socket is opened.  Contract kept from net/http:
// ListenAndServe[TLS] blocks until Shutdown (or Close) is called and then returns
// ErrServerClosed; on a server that was already shut down it returns
// ErrServerClosed at once; Shutdown of an idle server returns nil.  Requests are
// handed to Handler by the harness (Deliver), with the context BaseContext returns.

import (
	"context"
	"errors"
	"log"
	"net"
	"net/http"
	"time"
)

// ErrServerClosed stands in for http.ErrServerClosed (net/http is not initialised in the
// engine); the selector http.ErrServerClosed in olareg.go is redirected here.
var ErrServerClosed = errors.New("http: Server closed")

type Server struct {
	Addr              string
	Handler           http.Handler
	ReadTimeout       time.Duration
	ReadHeaderTimeout time.Duration
	WriteTimeout      time.Duration
	IdleTimeout       time.Duration
	MaxHeaderBytes    int
	BaseContext       func(net.Listener) context.Context
	ErrorLog          *log.Logger

	done      chan struct{}
	Listening bool   // a ListenAndServe call is blocked in the model listener
	Shut      bool   // Shutdown or Close was called
	TLS       bool   // started with ListenAndServeTLS
	CertFile  string // as passed to ListenAndServeTLS
	KeyFile   string
}

// Servers lists every model server that ever started listening (harness bookkeeping).
var Servers []*Server

// ResetServers forgets them.
func ResetServers() { Servers = nil }

func (s *Server) listen() error {
	if s.Shut {
		return ErrServerClosed
	}
	if s.done == nil {
		s.done = make(chan struct{})
	}
	s.Listening = true
	Servers = append(Servers, s)
	<-s.done
	s.Listening = false
	return ErrServerClosed
}

func (s *Server) ListenAndServe() error { return s.listen() }

func (s *Server) ListenAndServeTLS(certFile, keyFile string) error {
	s.TLS, s.CertFile, s.KeyFile = true, certFile, keyFile
	return s.listen()
}

func (s *Server) stop() {
	if s.Shut {
		return
	}
	s.Shut = true
	if s.done == nil {
		s.done = make(chan struct{})
	}
	close(s.done)
}

func (s *Server) Shutdown(ctx context.Context) error { s.stop(); return nil }

func (s *Server) Close() error { s.stop(); return nil }

// Deliver hands one request to the handler the way a connection would, using the base
// context of the server when one is configured.
func (s *Server) Deliver(req *http.Request) *Recorder {
	if s.BaseContext != nil {
		if ctx := s.BaseContext(nil); ctx != nil {
			req = req.WithContext(ctx)
		}
	}
	return Serve(s.Handler, req)
}
